"""setup_cmd: build every variant/harness from /repo's working tree and generate the networks."""
import sys
from . import build as B, core


def main():
    ts = [t for t in B.all_targets() if t[0] != "fuzz"]
    B.build(ts, quiet=False)
    core.ensure_nets(("zero_1", "material_1", "material_2", "random-small_1", "random-wide_1", "extreme_1"))
    print("setup ok: %d targets" % len(ts))


if __name__ == "__main__":
    sys.exit(main())
