"""Generates /verif/MANIFEST.json from the table below (python3 -m vlib.manifest)."""
import json
import os

VERIF = os.path.dirname(os.path.dirname(os.path.abspath(__file__)))

# id -> dict(engine, technique, level_text, level_note, design_ref, thorough=True)
CHECKS = {}
PENDING = {}


def chk(pid, engine, technique, text, note, ref, category="exploration"):
    CHECKS[pid] = dict(engine=engine, technique=technique, text=text, note=note, ref=ref, category=category)


chk("C01", "h_rules",
    "runtime differential monitor: engine move generator vs independent rules oracle on seeded position streams; ASan+UBSan+_GLIBCXX_ASSERTIONS slice",
    "Held on every generated position (3e5 quick / 2e7 thorough, counts in evidence): legal set, per-move isLegal/givesCheck verdicts, "
    "specialised lists, successor positions all agree with refchess; template and feature classes are measured and must be non-empty. "
    "Exploration is the right level: the input space is astronomically large and the oracle is exact per case.",
    "refchess (independent mailbox implementation, perft-validated each run); TextIO::readFEN defines the accepted domain; sanitizers see executed paths only",
    "DESIGN.md section 3 C01")
chk("C02", "h_rules",
    "runtime invariant monitor: from-scratch recomputation of all incremental position state after every step of seeded make/unmake/null-edit histories, under ASan+UBSan",
    "Held on every state of every generated history (counts in evidence); undefined behaviour would abort the UBSan build, so 'no UB for material reachable by legal play' is observed on promotion storms up to 9 queens a side.",
    "refchess for move choice and lock-step board comparison; the harness' own 64-bit arithmetic for material signature/totals; engine's computeZobristHash for the hash",
    "DESIGN.md section 3 C02")
chk("C03", "texel (real process, rel+asan)",
    "runtime output monitor on real UCI searches: refchess judges bestmove/ponder/PV legality, strict line grammar, score ranges, multi-PV distinctness; ASan+UBSan slice",
    "Held on every search run (400 quick / 2e4 thorough searches over the limit x option x network grid, 8 searches per process so hash/killer/history leftovers carry over). "
    "The space of (position, limits, options) cannot be enumerated; exploration with an exact per-case oracle is the right level.",
    "refchess for legality; the grammar in vlib/uci.py; synthetic networks instead of the (empty) shipped network",
    "DESIGN.md section 3 C03")
chk("C05", "texel (real process, asan+rel)",
    "runtime session monitor: random command histories with random pacing against the real process under ASan+UBSan; offline checker over the recorded send/receive log (grammar, exactly-once readyok/bestmove, release ordering, silence after bestmove, exit status); isready-flood stress for line atomicity; directed groups: option change during search, book move during ponder, node-rate throttle (MaxNPS 1), every search limit ends its search (also after ponderhit, after a searchmoves list, with clocks <= 0)",
    "Held on every recorded session (counts in evidence). Histories and pacing are sampled, not enumerated; a hang is a bounded-wait verdict (60 s exit watchdog), arrival-before-send comparisons make the ordering verdicts sound on a loaded machine.",
    "timestamps taken by the reader thread; grammar in vlib/uci.py; Hash>128MB / Threads>8 not exercised",
    "DESIGN.md section 3 C05")
chk("C14", "texel (two real processes per case)",
    "runtime differential monitor: normalised UCI transcripts of a probe search in a fresh process vs after a seeded prior session + Clear Hash (and a second Clear Hash), plus repeat determinism",
    "Held on every case run (41 quick / 1900 thorough; prior-session lengths around the 4-bit generation wrap are forced; directed cases: resident tablebase, non-zero contempt, tables above 16 MB with the probe position searched before the clear). Histories are sampled; equality of complete transcripts is an exact oracle per case.",
    "Threads=1 probes, synthetic network; periodic time-driven statistics lines are excluded from the transcript (only the final node count is compared)",
    "DESIGN.md section 3 C14")
chk("C11", "texel (real process) + h_game",
    "runtime monitors with a reference model: (1) UCI scores of 'go searchmoves m' on generated histories where refchess says m creates the third occurrence / completes 100 reversible plies / mates, and the value of the unrestricted root (>= 0 when a drawing move exists); (2) console Game class vs a FIDE reference model after every command of random and directed command histories (rel + ASan)",
    "Held on every generated history (3000 quick / 60000 thorough search cases; 16000 / 800000 console games). Only the positive direction is asserted for searches (draw => cp 0, mate => mate 1); 2nd-occurrence controls are run but not judged because a 0 score is legitimate there.",
    "refchess position identity (legally capturable e.p. only); Contempt 0; depth-limited searches (no on-demand tablebase)",
    "DESIGN.md section 3 C11")
chk("C12", "h_tb",
    "exhaustive runtime sweep + invariant check: every placement x side of each material class probed through the real probeDTM (both storage back ends) and checked against the Bellman equations with an independent move generator and compared entry by entry with an independent retrograde solution (h_tb solve, no engine code); fault injection (stop flag / time limit during generation) followed by hash traffic and probes against the verified table; ASan slice",
    "Per swept class the finite input space (all placements, all symmetry images, all sub-materials) is enumerated completely, and a labelling that satisfies the local mate/stalemate/min/max equations everywhere is the exact DTM labelling - so for those classes the check decides exactness, not a sample of it. Quick sweeps the 8 three-men classes + 2 four-men classes (one chosen by seed); thorough sweeps all 44. Abort points are sampled in time, not enumerated.",
    "the mini rules engine inside h_tb.cpp; positions with the side not to move in check are outside the domain (never probed by the search)",
    "DESIGN.md section 3 C12", category="fault_enumeration")
chk("C13", "texel (real process) + independent h_tb solution",
    "runtime output monitor: UCI scores and played moves of 'go infinite'+stop on <=4-men roots judged against an independent retrograde solution of each class (h_tb solve: mini rules engine only, self-checked with the forward Bellman equations in the same run)",
    "Held on every root searched (448 quick / 12000 thorough, 14 per engine process, stratified over classes incl. one with black mating material, half-move clocks, hash sizes, threads, table replacement and generation-abort sequences). Exactness is asserted only inside the 50-move margin; beyond it only what the rules imply.",
    "oracle = independent retrograde solution that passed its forward Bellman self-check in this run; synthetic network",
    "DESIGN.md section 3 C13")
chk("C04", "texel (real process) + refchess solver + independent h_tb solution",
    "runtime output monitor: every positive 'mate N' line, the final best move and final 'mate -N' of completed depth-limited searches judged by exact oracles (independent DTM solution self-checked in the same run, exhaustive mate solver up to 3-4 moves, mate-in-one enumeration at every depth 1..14, constructed only-legal-reply checks)",
    "Held on every search run (about 4900 quick / 1.2e5 thorough); claims no oracle can decide are counted as unchecked in the evidence, never as passes.",
    "DTM oracle independent of the engine generator, self-checked in this run; refchess solver ignores draw claims (roots have clock 0, no history); full strength only",
    "DESIGN.md section 3 C04")
chk("C19", "h_bb",
    "runtime invariant monitor: after (almost) every operation of seeded book-building histories the whole graph (negamax, depth, path errors, expansion costs, links, hashToParent) is recomputed from the defining equations by an independent model and compared node by node; save/load compared node by node; ASan slice",
    "Held on every history run (232 quick / 1e4 thorough histories, ~2e5 operations, books up to ~3600 nodes incl. transpositions with several parents, mate/INVALID/IGNORE scores, pending marks, game-tree imports, three save/load modes, backup file with several records per node). A full pass runs after every operation while the book has <=300 nodes, every ceil(nodes/300)-th operation above that, and always around imports and save/load.",
    "graph API only (no real searches); cycles (books deeper than the half-move-clock saturation) are not explored; where the header comment and the repository's own passing unit test disagree the oracle follows the unit test (three documented places, see h_bb.cpp)",
    "DESIGN.md section 3 C19")
chk("C20", "h_csp",
    "runtime differential monitor: CspSolver vs exhaustive enumeration (z3 fallback) on seeded random and structured constraint systems, a quarter of them solved a second time on the same object after adding constraints; ASan+UBSan slice",
    "Held on every system generated (4e5 quick / 2e7 thorough). Both directions are checked (solvable <=> satisfiable) and every returned assignment is validated against all ranges, parities and constraints.",
    "the enumeration oracle in h_csp.cpp; domain product capped at 4e6 as in the property's quantifier",
    "DESIGN.md section 3 C20")
chk("C15", "h_rev",
    "runtime differential monitor: RevMoveGen output vs forward moves along seeded legal games and directed walks (corner-rook captures with castling rights, one of two e.p. capturers pinned); refchess judges every listed predecessor (plausibility, legality, replay to the same position and undo information); ASan slice",
    "Held on every (P,m) pair and every un-move inspected (2.6e5 pairs / 7e6 un-moves quick; 1e7 pairs thorough); all special move classes are counted and must be non-empty.",
    "refchess; domain = positions whose e.p. square is normalised after every move (RevMoveGen's documented domain, as in class Game)",
    "DESIGN.md section 3 C15")
chk("C16", "h_pg + texelutil (real program)",
    "runtime monitors over reachable positions: (1) every output line of the real 'texelutil proofgame -f [-o]' and of the in-process filter must not say illegal, (2) every printed proof game is replayed by an independent SAN reader on refchess to exactly the goal, (3) distLowerBound on every prefix of every generated game vs the true remaining length; ASan/UBSan slices",
    "Held on every generated game/position except for the two recorded findings F11/F12 (castling and e.p. capture are not modelled by the distance heuristic). The check fails hard if a filter stage (kernel, extended kernel CSP, last-move analysis, path search, iterated proof search) was never exercised.",
    "refchess for game generation and proof replay; positions with >=26 men incl. forced rare shapes (cross-checks with 32 men, short games ending in an e.p. capture that gives check); iterated mode under a 120 s cap (unresolved = inconclusive); proof game stage also in-process on path: lines; FENs as normalised by the engine's own reader (strict input is the tool's tested contract)",
    "DESIGN.md section 3 C16")
chk("C17", "h_rules + h_pgn + texel(asan) + h_fuzz",
    "runtime round-trip monitors with independent writer/model (move text, PGN trees) and sanitizer-guarded mutation fuzzing of every text entry point (FEN, move text, UCI move, PGN, numbers, live UCI command lines incl. edge-of-int go parameters); engine-printed move text compared with the forced move for every promotion/castling/e.p. move; libFuzzer in the thorough tier",
    "Held on every generated case (3e6 quick; 4e7+ thorough). The PGN oracle's sensitivity is self-tested on each run (damaged expectations must all be noticed).",
    "refchess; ASan/UBSan/_GLIBCXX_ASSERTIONS see executed paths only; resource options excluded from UCI garbage",
    "DESIGN.md section 3 C17")
chk("C07", "h_eval (generic, SSSE3, AVX2, AVX-512, ASan builds) + evaluator hook in real searches",
    "runtime differential monitors: incremental/warm-cache evaluation vs a brand-new evaluator on a copy after steps of seeded make/unmake/null/reconnect/assign histories; colour-swap and mirror symmetry; cross-build digest comparison of one seeded position stream through all SIMD variants; ASan/UBSan slice; evaluator hook comparing every k-th evaluation of real searches with a fresh evaluation",
    "Held on every evaluation compared (1.8e6 quick / 1e8 thorough) for five synthetic networks incl. extreme weights that drive accumulator wrap and saturation.",
    "synthetic networks instead of the shipped (empty) one; non-sanitizer variants use the project's -O3",
    "DESIGN.md section 3 C07")
chk("C08", "h_tt (rel, ASan, TSan)",
    "runtime stress monitor with self-authenticating records: 2..16 threads hammer 1..4 buckets, every probe hit is re-derived from (key, nonce) so a blend of two writers is detected; exhaustive-by-size bounds sweep under ASan; ply-shift sweep; record re-stored through setBusy; tablebase-region checksum and exact re-probes under hash traffic, through clear/reSize and unrelated updateTB calls; TSan run",
    "Held on every probe hit verified (>1e8 quick) and every table size x top-16-bit key value swept under ASan. Interleavings are those the hardware produces; a no-xor mutant is detected within the quick budget (see DESIGN.md).",
    "real parallelism on 16 cores; sizes below 512 entries outside the domain; generation changes only at quiescent points, as in the engine",
    "DESIGN.md section 3 C08")
chk("C09", "texel, texelutil, h_tt (ThreadSanitizer builds)",
    "happens-before race detection (ThreadSanitizer) over random multi-threaded UCI sessions, proof-game filter runs with worker pools (also resuming from a damaged intermediate file, so that pool tasks throw) and the TT hammer; every report is a violation, de-duplicated by message and engine frames",
    "Held on every session/run executed (48 sessions + filter runs quick; 500 sessions thorough). TSan judges by happens-before analysis, so a race is reported even when the accesses did not collide in time; it only sees pairs of accesses that executed.",
    "TSan intercepts all synchronisation used (std::mutex/condition_variable/thread, atomics); Syzygy fence code never executes without tablebase files",
    "DESIGN.md section 3 C09")
chk("C18", "h_book (ASan+rel) + texel OwnBook slice",
    "runtime monitor with fault injection on the book file: refchess judges every probe result on built-in book lines, harness-written polyglot files and their damaged versions (truncation at every residue, bit flips, shuffles, equal keys, heavy duplicates, empty/missing/directory); membership and frequency checks on well-formed files; ASan/UBSan in half of the shards",
    "Held on every probe (7e5 quick / 2e7 thorough). The frequency claim is asserted for weight shares >= 2% over 2000 probes (miss probability < 1e-17), smaller shares are counted as not asserted.",
    "refchess legality; the console listing Book::getAllBookMoves is exercised only on books whose entries are all legal (on garbage entries its move formatting need not terminate; it is not on the probe path)",
    "DESIGN.md section 3 C18", category="fault_enumeration")
chk("C06", "h_cos (engine in-process under cosched, virtual clock)",
    "runtime trace monitor under a virtual clock: limits handed to the search (hook), every stop test of the main search thread (hook) and time-stamped output are checked against the budget derived from the go command; deterministic per (script, seed)",
    "Held on every timed search run (about 430 quick / 9e3 thorough) across the time-control grid; 'one polling interval' is measured per process from the observed stop tests (a MaxNPS throttle sleep inside a stop test counts while the node-rate cap justifies it), so retuning the poll frequency cannot raise an alarm.",
    "virtual time = nodes of the main search thread (100 per ms) + sleeps; 2 ms allowance for the engine's millisecond truncation; hooks H1-H3",
    "DESIGN.md section 3 C06")
chk("C10", "h_cos (engine in-process under cosched)",
    "runtime trace monitor under a deterministic cooperative scheduler that owns every blocking point (pthread interposition): seeded uniform-random and PCT schedules with pre-emption points every 64 nodes, before every condition wait (mutex still held) and after every notification; offline checker over the recorded event trace (exactly-once bestmove, helpers idle at search end, job/root attribution of accepted helper results, no stale work); deadlock = no runnable thread",
    "Held on every (script, seed) run (320 quick / 8e3 thorough; every run a distinct schedule digest). Interleavings are sampled, not enumerated: no exhaustive pre-emption-bounded exploration is claimed. A lost-wake-up mutant of Notifier::wait is flagged as a logical deadlock in >90% of the runs, a lock-free notify in 45%, notify-before-flag in 8%.",
    "the scheduler serialises threads (no weak-memory effects, no data races - those are C09); hooks H5 provide the events; virtual clock",
    "DESIGN.md section 3 C10")


def main():
    props = [json.loads(l) for l in open(os.path.join(VERIF, "properties.jsonl"))]
    checks = []
    na = []
    for p in props:
        pid = p["id"]
        if pid in CHECKS:
            c = CHECKS[pid]
            checks.append(dict(
                property_id=pid,
                quick_cmd="./check %s --tier quick" % pid,
                thorough_cmd="./check %s --tier thorough" % pid,
                evidence_file="/verif/evidence/%s.json" % pid,
                replay_cmd_template="cat {path}   # the file names the harness command line and witness that reproduce the case",
                engine=c["engine"],
                level_claimed=dict(category=c["category"], text=c["text"], design_ref=c["ref"]),
                level_note=c["note"],
                technique=c["technique"]))
        else:
            na.append(dict(property_id=pid, reason=PENDING.get(pid, "check not built yet in this round; designed in DESIGN.md section 3, to be claimed once its monitor runs silent on the unchanged tree")))
    man = dict(
        version=1,
        setup_cmd="python3 -m vlib.setup",
        hooks=dict(guard="TEXEL_VERIF",
                   enable="the checks compile /repo's sources in place with -DTEXEL_VERIF via /verif/vlib/build.py (ninja, per sanitizer variant); the repository's own CMake build never defines it",
                   baseline_off_cmd="python3 -m vlib.baseline",
                   source_commits=HOOK_COMMITS,
                   add_only=True),
        engines=[
            dict(name="texel", path="/verif/build/<variant>/texel", serves_properties=["C03", "C04", "C05", "C09", "C11", "C13", "C14"], kind_free_text="the real engine program: app/texel + texellib compiled from /repo in place, linked with src/common/netload.cpp (network chosen by $VERIF_NET)"),
            dict(name="refchess-cli", path="/verif/src/common/refchess_cli.cpp", serves_properties=["C03", "C04", "C11", "C13"], kind_free_text="line-protocol front end of the independent rules oracle"),
            dict(name="h_game", path="/verif/src/h_game.cpp", serves_properties=["C11"], kind_free_text="in-process harness: class Game with stub players vs a reference model on refchess"),
            dict(name="h_tb", path="/verif/src/h_tb.cpp", serves_properties=["C12", "C13", "C04"], kind_free_text="in-process multi-threaded harness: TBGenerator/TranspositionTable + independent mini rules engine; also serves verified DTM dumps to the python oracles"),
            dict(name="h_bb", path="/verif/src/h_bb.cpp", serves_properties=["C19"], kind_free_text="in-process harness: BookBuild::Book via the declared test-friend class, independent graph model"),
            dict(name="h_csp", path="/verif/src/h_csp.cpp", serves_properties=["C20"], kind_free_text="in-process harness: CspSolver vs enumeration/z3"),
            dict(name="h_rev", path="/verif/src/h_rev.cpp", serves_properties=["C15"], kind_free_text="in-process harness: RevMoveGen vs refchess"),
            dict(name="h_pg", path="/verif/src/h_pg.cpp", serves_properties=["C16"], kind_free_text="in-process harness: ProofGame/ProofGameFilter via the declared test-friend class; independent SAN replay on refchess"),
            dict(name="texelutil", path="/verif/build/<variant>/texelutil", serves_properties=["C16", "C09"], kind_free_text="the real utility program built from /repo in place"),
            dict(name="h_pgn", path="/verif/src/h_pgn.cpp", serves_properties=["C17"], kind_free_text="in-process harness: PGN round trip with independent writer and tree model; garbage into all text entry points"),
            dict(name="h_eval", path="/verif/src/h_eval.cpp", serves_properties=["C07"], kind_free_text="in-process harness built in 5 variants (generic/SSSE3/AVX2/AVX-512/ASan)"),
            dict(name="h_tt", path="/verif/src/h_tt.cpp", serves_properties=["C08"], kind_free_text="multi-threaded in-process harness on TranspositionTable (rel/ASan/TSan)"),
            dict(name="h_book", path="/verif/src/h_book.cpp", serves_properties=["C18"], kind_free_text="in-process harness: Book/PolyglotBook with harness-written and damaged polyglot files"),
            dict(name="h_cos", path="/verif/src/h_cos.cpp", serves_properties=["C10", "C06", "C05", "C07"], kind_free_text="the whole engine (app/texel objects without main + texellib) linked with the cooperative scheduler src/common/cosched.cpp that defines the pthread primitives; custom cin/cout streambufs; hooks installed"),
            dict(name="h_rules", path="/verif/src/h_rules.cpp", serves_properties=["C01", "C02", "C17"], kind_free_text="in-process harness linking texellib + refchess oracle (rel and asan+ubsan builds)"),
        ],
        checks=checks,
        not_applicable=na,
        notes="Technique family: runtime monitoring and sanitizers. See DESIGN.md. known_findings.json lists genuine defects (open and fixed).")
    with open(os.path.join(VERIF, "MANIFEST.json"), "w") as f:
        json.dump(man, f, indent=1)
        f.write("\n")


HOOK_COMMITS = ['1cbe8b6', '9438b0c', 'e2fe229', '35f68a5']

if __name__ == "__main__":
    main()
