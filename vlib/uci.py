"""UCI process driver and output grammar; refchess-cli client."""
import os
import re
import subprocess
import threading
import time

from . import build as B, core

MOVE = r"[a-h][1-8][a-h][1-8][qrbn]?"
RE_LINES = [
    ("readyok", re.compile(r"^readyok$")),
    ("uciok", re.compile(r"^uciok$")),
    ("id", re.compile(r"^id (name|author) .+$")),
    ("option", re.compile(r"^option name .+ type (check|spin|combo|button|string)( .*)?$")),
    ("depth", re.compile(r"^info depth (\d+)$")),
    ("currmove", re.compile(r"^info currmove (%s|0000) currmovenumber (\d+)$" % MOVE)),
    ("pv", re.compile(r"^info depth (?P<depth>\d+) score (?P<kind>cp|mate) (?P<score>-?\d+)(?P<bound> upperbound| lowerbound)? "
                      r"time (?P<time>\d+) nodes (?P<nodes>\d+) nps (?P<nps>\d+)(?: tbhits (?P<tbhits>\d+))?(?: multipv (?P<multipv>\d+))? "
                      r"pv(?P<pv>(?: %s)*)$" % MOVE)),
    ("stats", re.compile(r"^info nodes (\d+) nps (\d+) hashfull (\d+)(?: tbhits (\d+))? time (\d+)$")),
    ("bestmove", re.compile(r"^bestmove (?P<move>%s|0000)(?: ponder (?P<ponder>%s))?$" % (MOVE, MOVE))),
    ("string", re.compile(r"^info string [ -~]*$")),
]


def classify(line):
    for name, rx in RE_LINES:
        m = rx.match(line)
        if m:
            return name, m
    return None, None


class Engine:
    """One engine process. Lines are collected by a reader thread with arrival times."""

    def __init__(self, variant="rel", net="material_1", exe=None, extra_env=None, name="texel"):
        env = dict(os.environ)
        env.update(core.SAN_ENV)
        if variant == "tsan":
            env["TSAN_OPTIONS"] = extra_env.pop("TSAN_OPTIONS", "halt_on_error=0:second_deadlock_stack=1") if extra_env else "halt_on_error=0"
        env["VERIF_NET"] = core.net_path(net)
        if extra_env:
            env.update(extra_env)
        self.exe = exe or B.exe(variant, name)
        self.p = subprocess.Popen([self.exe], stdin=subprocess.PIPE, stdout=subprocess.PIPE, stderr=subprocess.PIPE,
                                  env=env, bufsize=0)
        self.lines = []          # (t, text)
        self.sent = []           # (t, text, index into lines at send time)
        self.cv = threading.Condition()
        self.eof = False
        self.stderr_data = b""
        self._rt = threading.Thread(target=self._reader, daemon=True)
        self._rt.start()
        self._et = threading.Thread(target=self._ereader, daemon=True)
        self._et.start()
        self.rc = None

    def _reader(self):
        buf = b""
        while True:
            try:
                chunk = self.p.stdout.read(65536)
            except ValueError:
                break
            if not chunk:
                break
            buf += chunk
            parts = buf.split(b"\n")
            buf = parts.pop()
            t = time.time()
            with self.cv:
                for s in parts:
                    self.lines.append((t, s.decode("latin-1")))
                self.cv.notify_all()
        with self.cv:
            if buf:
                self.lines.append((time.time(), buf.decode("latin-1") + "<NO-NEWLINE>"))
            self.eof = True
            self.cv.notify_all()

    def _ereader(self):
        data = []
        while True:
            try:
                chunk = self.p.stderr.read(65536)
            except ValueError:
                break
            if not chunk:
                break
            data.append(chunk)
            if sum(len(d) for d in data) > (8 << 20):
                data = data[-4:]
        self.stderr_data = b"".join(data)

    def send(self, cmd):
        with self.cv:
            self.sent.append((time.time(), cmd, len(self.lines)))
        try:
            self.p.stdin.write((cmd + "\n").encode("latin-1"))
            self.p.stdin.flush()
            return True
        except (BrokenPipeError, OSError, ValueError):
            return False

    def wait_for(self, pred, start=0, timeout=30.0):
        """Wait until a line at index >= start satisfies pred; returns (index, text) or None."""
        deadline = time.time() + timeout
        i = start
        with self.cv:
            while True:
                while i < len(self.lines):
                    if pred(self.lines[i][1]):
                        return i, self.lines[i][1]
                    i += 1
                if self.eof:
                    return None
                rem = deadline - time.time()
                if rem <= 0:
                    return None
                self.cv.wait(rem)

    def nlines(self):
        with self.cv:
            return len(self.lines)

    def go(self, cmd, timeout=60.0):
        """Send a go command and wait for bestmove. Returns (lines of this search, bestmove line or None)."""
        start = self.nlines()
        self.send(cmd)
        r = self.wait_for(lambda l: l.startswith("bestmove"), start, timeout)
        with self.cv:
            end = (r[0] + 1) if r else len(self.lines)
            ls = [t for _, t in self.lines[start:end]]
        return ls, (r[1] if r else None)

    def isready(self, timeout=30.0):
        start = self.nlines()
        self.send("isready")
        return self.wait_for(lambda l: l == "readyok", start, timeout) is not None

    def close(self, how="quit", timeout=20.0):
        """how: quit | eof | kill. Returns exit status, or None when the process had to be killed."""
        try:
            if how == "quit":
                self.send("quit")
            self.t_close = time.time()
            if how in ("quit", "eof"):
                try:
                    self.p.stdin.close()
                except OSError:
                    pass
            if how == "kill":
                self.p.kill()
            try:
                self.rc = self.p.wait(timeout=timeout)
            except subprocess.TimeoutExpired:
                self.p.kill()
                self.p.wait()
                self.rc = None
        finally:
            self._rt.join(timeout=5)
            self._et.join(timeout=5)
            for f in (self.p.stdout, self.p.stderr):
                try:
                    f.close()
                except OSError:
                    pass
        return self.rc

    def stderr_text(self):
        return self.stderr_data.decode("latin-1", "replace")

    def transcript(self, maxlines=400):
        ev = [(t, "> " + c) for t, c, _ in self.sent] + [(t, "< " + l) for t, l in self.lines]
        ev.sort(key=lambda x: x[0])
        out = [e[1] for e in ev]
        if len(out) > maxlines:
            out = out[:maxlines // 2] + ["..."] + out[-maxlines // 2:]
        return "\n".join(out)


class RefCli:
    """Client of the refchess line protocol (one process per worker thread)."""
    _tl = threading.local()

    def __init__(self):
        self.p = subprocess.Popen([B.exe("rel", "refchess-cli")], stdin=subprocess.PIPE, stdout=subprocess.PIPE,
                                  text=True, bufsize=1)
        if self.ask("selftest") != "ok":
            raise core.HarnessError("refchess self test failed")

    @classmethod
    def get(cls):
        r = getattr(cls._tl, "inst", None)
        if r is None or r.p.poll() is not None:
            r = cls()
            cls._tl.inst = r
        return r

    def ask(self, line):
        self.p.stdin.write(line + "\n")
        self.p.stdin.flush()
        return self.p.stdout.readline().rstrip("\n")

    def legal(self, fen):
        r = self.ask("legal " + fen)
        if r == "badfen":
            raise core.HarnessError("refchess: bad fen " + fen)
        left, _, right = r.partition(" | ")
        toks = left.split()
        return toks[1:], right.endswith("1")

    def apply(self, fen, moves):
        """Returns (ok, fen-or-message)."""
        r = self.ask("apply %s | %s" % (fen, " ".join(moves)))
        if r.startswith("ok "):
            return True, r[3:]
        return False, r

    def status(self, fen):
        return self.ask("status " + fen)

    def mate1(self, fen):
        return self.ask("mate1 " + fen).split()[1:]

    def matesin(self, fen, n, nodes=2000000):
        return self.ask("matesin %s | %d %d" % (fen, n, nodes))

    def lostin(self, fen, n, nodes=2000000):
        return self.ask("lostin %s | %d %d" % (fen, n, nodes))

    def repkey(self, fen):
        return self.ask("repkey " + fen)


START_FEN = "rnbqkbnr/pppppppp/8/8/8/8/PPPPPPPP/RNBQKBNR w KQkq - 0 1"
