"""C12 - on-demand endgame tables hold the exact distance to mate (h_tb): exhaustive sweep of every
placement x side to move through probeDTM for both storage back ends, Bellman-equation check with an
independent mini rules engine, scope probes, and aborted generations (fault injection via the engine's own
stop flag / time limit) followed by hash traffic and probes against the verified table."""
import os
import random

from .. import core, build as B

LEVEL = "fault_enumeration"
THREE = ["KQK", "KRK", "KBK", "KNK", "KKQ", "KKR", "KKB", "KKN"]
P = "QRBN"
FOUR = ([("K%s%sK" % (a, b)) for i, a in enumerate(P) for b in P[i:]] + [("K%sK%s" % (a, b)) for a in P for b in P] +
        [("KK%s%s" % (a, b)) for i, a in enumerate(P) for b in P[i:]])
TBDIR = os.path.join(B.BUILD, "tb")


def dump_path(cls):
    return os.path.join(TBDIR, cls + ".dtm")


def ind_path(cls, tag):
    return os.path.join(TBDIR, "ind_%s_%s.dtm" % (tag, cls))


def solve(c, classes, tag):
    """Independent retrograde solution (mini rules engine only, no engine code) of each class, self-checked with the
    forward Bellman equations; written to ind_path(cls, tag). A failing self-check is a harness failure (the oracle's own bug)."""
    os.makedirs(TBDIR, exist_ok=True)
    res = []
    for cls in classes:
        path = ind_path(cls, tag)
        if os.path.exists(path):
            os.unlink(path)
        r = core.run_proc([B.exe("rel", "h_tb"), "solve", cls, str(core.NCPU), path], timeout=3600)
        res.append(r)
        if r.viols or r.reports or r.rc != 0 or not os.path.exists(path):
            raise core.HarnessError("independent tablebase solver failed its self-check for %s: %s" % (cls, (r.viols or r.reports or [r.rc])[:1]))
    return core.merge_stats(res)


def compare_dumps(cls, a, b, limit=3):
    """byte-compare two dumps of the same class; returns (number of differing entries, witnesses)"""
    import array
    with open(a, "rb") as fa, open(b, "rb") as fb:
        ha, hb = fa.readline(), fb.readline()
        da, db = fa.read(), fb.read()
    if ha != hb or len(da) != len(db):
        return -1, ["header/size mismatch"]
    if da == db:
        return 0, []
    va, vb = array.array("h"), array.array("h")
    va.frombytes(da); vb.frombytes(db)
    k2 = cls.index("K", 1)
    men = [(ch, True) for ch in cls[:k2]] + [(ch.lower(), False) for ch in cls[k2:]]
    n, wit = 0, []
    for i in range(len(va)):
        if va[i] != vb[i]:
            n += 1
            if len(wit) < limit:
                idx, wtm = i >> 1, i & 1
                board = {}
                for ch, _ in men:
                    sq = idx % 65; idx //= 65
                    if sq != 64:
                        board[sq] = ch
                rows = []
                for r in range(7, -1, -1):
                    row, e = "", 0
                    for f in range(8):
                        ch = board.get(r * 8 + f)
                        if ch is None:
                            e += 1
                        else:
                            row += (str(e) if e else "") + ch; e = 0
                    rows.append(row + (str(e) if e else ""))
                wit.append("%s %s - - 0 1: engine table %d, independent solution %d" % ("/".join(rows), "w" if wtm else "b", va[i], vb[i]))
    return n, wit


def sweep(c, classes, variant="rel", threads=None, keep=True):
    """Sweep classes one after another (each uses all cores). Returns merged stats."""
    os.makedirs(TBDIR, exist_ok=True)
    res = []
    for cls in classes:
        path = dump_path(cls) if keep else ""
        if keep and os.path.exists(path):
            os.unlink(path)
        r = core.run_proc([B.exe(variant, "h_tb"), "sweep", cls, str(threads or core.NCPU)] + ([path] if keep else []), timeout=3600)
        res.append(r)
    c.absorb("tb-sweep-bellman" + ("" if variant == "rel" else "-" + variant), res)
    return core.merge_stats(res), res


def run(c):
    quick = c.tier == "quick"
    B.build([("rel", "h_tb"), ("asan", "h_tb")])
    rnd = random.Random(c.seed)
    DUP = [x for x in FOUR if x[1] == x[2] or (x[1] == "K" and x[2] == x[3])]      # classes with two identical pieces
    four = [rnd.choice(FOUR), rnd.choice(DUP)] if quick else list(FOUR)
    if quick and "KQKR" not in four:
        four.append("KQKR")     # needed by C13/C04 style consumers and the abort runs
    classes = THREE + four
    st, _ = sweep(c, classes)
    # second, independent oracle: a retrograde solution computed without any engine code must be identical entry by entry
    ist = solve(c, classes, "C12")
    ncmp = 0
    for cls in classes:
        if os.path.exists(dump_path(cls)):
            nd, wit = compare_dumps(cls, dump_path(cls), ind_path(cls, "C12"))
            ncmp += 1
            for w in wit:
                c.violation("tb-vs-independent-solution", "differs", "%s %s (%d entries differ; encoding 0 draw, +n win in n, -(n+1) lost in n)" % (cls, w, nd))
        os.unlink(ind_path(cls, "C12"))
    # ASan/UBSan/_GLIBCXX_ASSERTIONS: all three-men classes (index arithmetic, symmetry mapping, TT byte region)
    st_a, _ = sweep(c, THREE if quick else THREE + ["KQKR", "KBNK", "KKRR"], variant="asan", keep=False)
    # aborted generations
    abort_cls = [x for x in four if os.path.exists(dump_path(x))][:1 if quick else 2] + [x for x in ("KRK", "KQK") if os.path.exists(dump_path(x))][:1]
    cmds = []
    per4 = 2 if quick else 12
    for cls in abort_cls:
        is4 = len(cls) == 4
        nproc = core.NCPU if is4 else 2
        for i in range(nproc):
            cmds.append([B.exe("rel", "h_tb"), "abort", cls, str(c.seed * 1000 + i), str(per4 if is4 else 40), dump_path(cls)])
    cmds.append([B.exe("asan", "h_tb"), "abort", "KRK", str(c.seed), "10", dump_path("KRK")])
    ares = core.run_many(cmds, timeout=3600)
    c.absorb("tb-aborted-generation", ares)
    ast = core.merge_stats(ares)
    sres = core.run_many([[B.exe("rel", "h_tb"), "scope", str(c.seed), str(3000 if quick else 100000)],
                          [B.exe("asan", "h_tb"), "scope", str(c.seed + 1), "500"]], timeout=3600)
    c.absorb("tb-scope", sres)
    # the table inside a transposition table whose byte offsets exceed 2^32 (Hash > 4096 MB), when the machine has the memory for it
    big_mb = 0
    try:
        avail = [int(l.split()[1]) for l in open("/proc/meminfo") if l.startswith("MemAvailable:")][0] // 1024
    except Exception:
        avail = 0
    if avail > 14000:
        big_mb = 4200 if quick else rnd.choice([4200, 5000, 8200])
        bres = [core.run_proc([B.exe("rel", "h_tb"), "bigtt", "KQKR" if quick else rnd.choice(["KQKR", "KRKN", "KBNK"]), str(big_mb), str(c.seed)], timeout=3600)]
        c.absorb("tb-inside-large-hash", bres)
        bst = core.merge_stats(bres)
    else:
        bst = {}
    sst = core.merge_stats(sres)
    c.evaluations = st.get("positions_checked", 0) + ast.get("probes_after_abort", 0) + sst.get("scope_probes", 0)
    c.distinct = st.get("wins", 0) + st.get("losses", 0)
    c.rule = ("exhaustive per class: every placement of the men on 64 squares (non-king men also 'captured', i.e. every sub-material) x both sides to move, "
              "kings not adjacent, side not to move not in check, probed through the public probeDTM(Position) of both storage back ends (private vector, "
              "and the region inside a TranspositionTable filled by updateTB); each value checked against the Bellman equations using an independent move "
              "generator (mate/stalemate, win in n <=> best child is loss in n-1, loss in n <=> all children wins with max n, draw otherwise). "
              "distinct_nontrivial = checked positions with a decisive value (all enumerated positions are distinct). Abort cases: stop flag / time limit fired at a "
              "uniformly random fraction of the generation time, then 20000 random hash inserts/probes, then 3000 random probes must be 'not found' or exact, then "
              "an unrestricted updateTB must make every probe exact")
    c.extra.update(classes_swept=classes, classes_compared_with_independent_solution=ncmp, independent_solver_unmove_edges=ist.get('unmove_edges', 0), classes_exhaustive=True, exhaustive=not quick, quick_note="quick sweeps all 3-men classes and %s; thorough sweeps all 44" % four,
                   positions_checked=st.get("positions_checked", 0), moves_followed=st.get("moves_followed", 0),
                   probes_vector_backend=st.get("probes_vector", 0), probes_tt_backend=st.get("probes_tt", 0),
                   max_win_dtm=st.get("max_win_dtm", 0), asan_positions_checked=st_a.get("positions_checked", 0),
                   abort_cases=ast.get("abort_cases", 0), generations_aborted=ast.get("generations_aborted", 0),
                   generations_completed_despite_stop=ast.get("generations_completed", 0), probes_after_abort=ast.get("probes_after_abort", 0),
                   probes_of_previously_resident_class=ast.get("probes_of_previously_resident_class", 0),
                   scope_probes_out_of_scope=sst.get("scope_out_probes", 0), large_hash_table_mb=big_mb, large_hash_probes_compared=bst.get("probes_tt_large", 0),
                   large_hash_note="run only when MemAvailable > 14 GB")
    c.assumptions += ["the mini rules engine in h_tb.cpp (independent of the engine and of refchess) generates the legal moves of <=4-men pawnless positions correctly; "
                      "it reproduces the known maximal DTM values (KQK 10, KRK 16, KBNK 33, KQKR 35) as a side effect",
                      "abort points are sampled in wall-clock fractions of a measured generation time, not enumerated per checkpoint"]
    if ast.get("generations_aborted", 0) == 0:
        raise core.HarnessError("no generation was actually aborted")
