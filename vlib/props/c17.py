"""C17 - move, position and game text formats round-trip and reject garbage safely.
(1) move text round trips (h_rules c17m), (2) PGN round trips with an independent writer and tree model (h_pgn pgn),
(3) mutated/random bytes into every text entry point under ASan/UBSan (h_pgn garbage), (4) garbage UCI command lines
into a live ASan engine process, (5) thorough: coverage-guided fuzzing (libFuzzer, h_fuzz)."""
import concurrent.futures
import os
import random
import subprocess

from .. import core, build as B, uci, sessions


def mutate_line(rnd, line):
    b = bytearray(line.encode("latin-1"))
    for _ in range(rnd.randint(1, 4)):
        k = rnd.randint(0, 7)
        if not b:
            b = bytearray(b"go")
        i = rnd.randrange(len(b))
        if k == 0:
            b[i] ^= 1 << rnd.randint(0, 7)
        elif k == 1:
            b[i:i + rnd.randint(1, 4)] = b""
        elif k == 2:
            b[i:i] = bytes([rnd.choice(b"pnbrqkPNBRQK12345678/ -wabcdefgh\t\x00\xff{}()[]$%")])
        elif k == 3:
            b = b[:i]
        elif k == 4:
            b[i:i] = b[rnd.randrange(len(b)):][:rnd.randint(1, 30)]
        elif k == 5:
            b[i:i] = rnd.choice([b"99999999999999999999", b"-2147483648", b"2147483647", b" value ", b" name ", b" moves ", b" fen ", b" searchmoves "])
        elif k == 6:
            toks = bytes(b).split(b" ")
            rnd.shuffle(toks)
            b = bytearray(b" ".join(toks))
        else:
            b = b * rnd.randint(2, 20)
    b = bytes(b).replace(b"\n", b" ").replace(b"\r", b" ")[:4096]
    return b.decode("latin-1")


def uci_garbage_session(args):
    seed, nlines = args
    rnd = random.Random(seed)
    eng = uci.Engine("asan", "material_1")
    eng.send("uci"); eng.send("isready")
    lines = []
    # numbers at the edge of int in every numeric 'go' parameter (each search is stopped at once; only crashes and sanitizer reports count)
    big = rnd.choice(["2147483647", "2147483646", "-2147483648", "1073741824", "300000000", "99999999999999999999", "-1"])
    for l in ("go wtime %s btime %s winc %s binc %s movestogo %s" % (big, big, big, big, rnd.choice(["0", "1", "40", big])),
              "go ponder wtime %s btime %s winc %s binc %s" % (big, big, big, big), "go movetime %s" % big, "go depth %s" % big, "go nodes %s" % big, "go mate %s" % big):
        if rnd.random() < .5:
            eng.send("setoption name Ponder value %s" % rnd.choice(["true", "false"]))
            eng.send(l); eng.send("stop"); lines.append(l)
    for i in range(nlines):
        base, _ = rnd.choice(sessions.gen_session(rnd, maxlen=8)[0] or [("isready", 0)])
        if base.startswith("go") and "infinite" not in base and rnd.random() < .5:
            base = "go depth 2"
        if base.startswith("setoption") and ("Hash" in base or "Threads" in base or "GaviotaTbCache" in base):
            base = "setoption name MultiPV value 2"     # resource options are C05's business; a mutated value could legitimately ask for 60 GB
        l = mutate_line(rnd, base) if rnd.random() < .85 else "".join(chr(rnd.randrange(1, 256)) for _ in range(rnd.randint(1, 200))).replace("\n", " ").replace("\r", " ")
        if l.split()[:1] == ["quit"]:
            continue
        low = l.lower()
        if "hash" in low or "threads" in low or "gaviotatbcache" in low:
            continue
        lines.append(l)
        eng.send(l)
        if rnd.random() < .1:
            eng.send("stop")
    eng.send("stop")
    alive = eng.isready(timeout=120)
    rc = eng.close("quit", timeout=120)
    v = []
    if not alive:
        v.append(("engine-dead-or-hung-after-garbage", "no readyok after %d garbage lines" % len(lines)))
    if rc != 0:
        v.append(("exit-status", "rc=%s" % rc))
    return dict(viol=v, n=len(lines), stderr=eng.stderr_text(), tail=lines[-5:], distinct=set(lines))


PROMO_FENS = ["8/2P3k1/8/8/8/8/2p3K1/8 w - - 0 1", "8/2P3k1/8/8/8/8/2p3K1/8 b - - 0 1", "1n1r2k1/2P5/8/8/8/8/2p5/1N1R2K1 w - - 0 1", "1n1r2k1/2P5/8/8/8/8/2p5/1N1R2K1 b - - 0 1",
              "r3k2r/6P1/8/8/8/8/6p1/R3K2R w KQkq - 0 1", "r3k2r/6P1/8/8/8/8/6p1/R3K2R b KQkq - 0 1", "4k3/8/8/3pP3/8/8/8/4K3 w - d6 0 2", "4k3/8/8/8/3Pp3/8/8/4K3 b - d3 0 2"]


def engine_move_text(variant):
    """The engine's own move-to-text code (bestmove / ponder / pv / currmove lines) is a separate copy from TextIO: every legal move of
    positions rich in promotions, castling and e.p. is forced with searchmoves and must come back as exactly the same UCI text."""
    v, n, kinds = [], 0, {}
    ref = uci.RefCli.get()
    eng = uci.Engine(variant, "material_1")
    eng.send("uci"); eng.isready()
    for fen in PROMO_FENS:
        moves, _ = ref.legal(fen)
        for m in moves:
            if not (len(m) == 5 or m in ("e1g1", "e1c1", "e8g8", "e8c8") or fen.split()[3] != "-"):
                continue
            eng.send("position fen " + fen)
            ls, best = eng.go("go depth 2 searchmoves " + m, timeout=60)
            n += 1
            key = ("promotion to %s by %s" % (m[4], "white" if fen.split()[1] == "w" else "black")) if len(m) == 5 else "other"
            kinds[key] = kinds.get(key, 0) + 1
            got = (best or "").split()
            if len(got) < 2 or got[1] != m:
                v.append(("engine-move-text-differs", "position fen %s ; go depth 2 searchmoves %s -> %s" % (fen, m, best)))
            for l in ls:
                k, mm = uci.classify(l)
                if k == "pv" and mm.group("pv").split()[0] != m:
                    v.append(("engine-move-text-differs", "position fen %s ; go depth 2 searchmoves %s -> pv %s" % (fen, m, mm.group("pv")[:40])))
                    break
    eng.close()
    return v, n, kinds


def run(c):
    quick = c.tier == "quick"
    B.build([("rel", "h_rules"), ("asan", "h_rules"), ("rel", "h_pgn"), ("asan", "h_pgn"), ("asan", "texel")])
    core.ensure_nets(["material_1"])
    S = core.NCPU
    n_moves = int((100000 if quick else 4000000) * c.scale)
    n_pgn = int((6000 if quick else 300000) * c.scale)
    n_garb_asan = int((400000 if quick else 16000000) * c.scale)
    n_garb_rel = int((600000 if quick else 20000000) * c.scale)
    hfiles = []

    def hf(tag, i):
        p = os.path.join(core.TMP, "c17_%s_%d_%d.h64" % (tag, os.getpid(), i))
        hfiles.append(p)
        return p

    cmds = []
    groups = {}

    def add(name, lst):
        groups[name] = (len(cmds), len(cmds) + len(lst))
        cmds.extend(lst)

    add("moves", [[B.exe("rel", "h_rules"), "c17m", str(c.seed * 1000 + i), str(n_moves // S), hf("m", i)] for i in range(S)])
    add("moves_asan", [[B.exe("asan", "h_rules"), "c17m", str(c.seed * 1000 + 100 + i), str(n_moves // 10 // 4)] for i in range(4)])
    add("pgn", [[B.exe("rel", "h_pgn"), "pgn", str(c.seed * 1000 + i), str(n_pgn // S), hf("p", i)] for i in range(S)])
    add("pgn_asan", [[B.exe("asan", "h_pgn"), "pgn", str(c.seed * 1000 + 100 + i), str(max(1, n_pgn // 10 // 4))] for i in range(4)])
    add("pgn_neg", [[B.exe("rel", "h_pgn"), "pgn-neg", str(c.seed), "300"]])
    add("garbage_asan", [[B.exe("asan", "h_pgn"), "garbage", str(c.seed * 1000 + i), str(n_garb_asan // S), hf("g", i)] for i in range(S)])
    add("garbage_rel", [[B.exe("rel", "h_pgn"), "garbage", str(c.seed * 1000 + 200 + i), str(n_garb_rel // S), hf("h", i)] for i in range(S)])
    res = core.run_many(cmds, timeout=7200)
    st = {}
    for name, (a, b) in groups.items():
        if name == "pgn_neg":
            r = res[a]
            if r.stats.get("neg_missed", 0) != 0 or r.stats.get("neg_detected", 0) == 0:
                raise core.HarnessError("PGN oracle sensitivity self-test failed: %s" % r.stats)
            st[name] = r.stats
            continue
        c.absorb({"moves": "move-text-roundtrip", "moves_asan": "move-text-asan", "pgn": "pgn-roundtrip", "pgn_asan": "pgn-asan",
                  "garbage_asan": "garbage-asan-ubsan", "garbage_rel": "garbage-rel"}[name], res[a:b])
        st[name] = core.merge_stats(res[a:b])
    # garbage UCI lines into a live engine
    n_sess = int((48 if quick else 800) * c.scale)
    ulines = 0
    udist = set()
    with concurrent.futures.ThreadPoolExecutor(max_workers=S) as ex:
        for r in ex.map(uci_garbage_session, [(c.seed * 5000 + i, 120) for i in range(n_sess)]):
            for kind, wit in r["viol"]:
                c.violation("uci-garbage-lines", kind, wit + " | last lines: %r" % r["tail"])
            for rep in core.sanitizer_reports(r["stderr"]):
                c.violation("uci-garbage-lines", "sanitizer", core.report_key(rep), detail="last lines: %r\n%s" % (r["tail"], rep["raw"]))
            ulines += r["n"]
            udist |= r["distinct"]
    ev, en, ekinds = engine_move_text("asan")
    for kind, wit in ev:
        c.violation("engine-move-text", kind, wit)
    if len([k for k in ekinds if k.startswith("promotion")]) < 8:
        raise core.HarnessError("engine move text: not all eight promotion kinds exercised: %s" % ekinds)
    c.extra["engine_output_moves_checked"] = en
    c.extra["engine_output_move_kinds"] = ekinds
    fuzz = None
    if not quick:
        os.environ["VERIF_BUILD_FUZZ"] = "1"
        B.build([("fuzz", "h_fuzz")])
        corpus = os.path.join(core.TMP, "c17_corpus_%d" % os.getpid())
        os.makedirs(corpus, exist_ok=True)
        fr = core.run_many([[B.exe("fuzz", "h_fuzz"), "-runs=1000000", "-max_len=4096", "-seed=%d" % (c.seed * 100 + i), "-print_final_stats=1",
                             os.path.join(corpus, str(i))] for i in range(S) if not os.makedirs(os.path.join(corpus, str(i)), exist_ok=True)],
                           env={"ASAN_OPTIONS": "detect_leaks=0:abort_on_error=0"}, timeout=14400)
        for r in fr:
            if r.rc != 0:
                reps = core.sanitizer_reports(r.stderr)
                c.violation("libfuzzer", "sanitizer" if reps else "crash", core.report_key(reps[0]) if reps else "rc=%s" % r.rc, detail=r.stderr[-4000:])
        fuzz = sum(int(x) for r in fr for x in __import__("re").findall(r"stat::number_of_executed_units:\s*(\d+)", r.stderr))
        subprocess.run(["rm", "-rf", corpus])
    c.evaluations = (st["moves"].get("moves", 0) + st["pgn"].get("trees", 0) + st["pgn_asan"].get("trees", 0) + st["garbage_asan"].get("inputs", 0) +
                     st["garbage_rel"].get("inputs", 0) + ulines + (fuzz or 0))
    c.distinct = core.count_distinct(hfiles) + len(udist)
    c.rule = ("(1) positions biased to several like pieces attacking one square / promotions with capture and check x every legal move: short, long and UCI text parse back, short forms "
              "pairwise distinct, +/# suffix <=> refchess check/mate; (2) random game trees (variations nested to depth 4, comments with all 95 printable characters, NAGs as $n and "
              "!/? suffixes, escaped headers, start FENs) written by an independent PGN writer and by the repository's writer, parsed by PgnReader and compared node by node with an "
              "independent tree model; oracle sensitivity self-test (damaged expectations must all be noticed); (3) mutated valid FEN/move/PGN/number texts and random bytes <=4 KB into "
              "readFEN (+ exercising accepted positions), stringToMove, uciStringToMove, PgnReader, number helpers - value or ChessParseError, no sanitizer report/abort/hang; "
              "(4) mutated and random UCI command lines into a live ASan engine which must still answer isready and exit 0. distinct_nontrivial = distinct positions needing "
              "disambiguation + distinct PGN texts + distinct garbage inputs + distinct UCI garbage lines")
    c.extra.update(move_positions=st["moves"].get("positions", 0), moves_checked=st["moves"].get("moves", 0),
                   positions_needing_disambiguation=st["moves"].get("positions_needing_disambiguation", 0),
                   pgn_trees=st["pgn"].get("trees", 0) + st["pgn_asan"].get("trees", 0), pgn_nodes=st["pgn"].get("nodes", 0), pgn_variations=st["pgn"].get("variations", 0),
                   pgn_comments=st["pgn"].get("comments", 0), pgn_nags=st["pgn"].get("nags", 0), pgn_start_fen_games=st["pgn"].get("start_fen_games", 0),
                   pgn_max_nesting=st["pgn"].get("max_nesting", 0), pgn_engine_written_trees=st["pgn"].get("engine_written_trees", 0),
                   pgn_oracle_selftest=dict(st["pgn_neg"]),
                   garbage_inputs_asan=st["garbage_asan"].get("inputs", 0), garbage_inputs_rel=st["garbage_rel"].get("inputs", 0),
                   garbage_entry_points={k: v for k, v in st["garbage_asan"].items() if k.startswith("ep_")},
                   garbage_kinds={k[5:]: v for k, v in st["garbage_asan"].items() if k.startswith("kind_")},
                   uci_garbage_lines=ulines, libfuzzer_executions=fuzz, exhaustive=False)
    c.assumptions += ["refchess for SAN check/mate suffixes and the expected PGN trees", "UCI garbage avoids the resource options (Hash/Threads/GaviotaTbCache): a mutated value may legitimately request tens of GB"]
    if st["garbage_asan"].get("ep_fen_accepted", 0) == 0 or st["pgn"].get("variations", 0) == 0:
        raise core.HarnessError("garbage never accepted a FEN / no PGN variations generated")
