"""C13 - with tablebase knowledge the engine reports exact results and keeps them.
Real texel, 'go infinite' on <=4-men pawnless roots until tbhits appear, stop; scores and the played move are
judged against an independent retrograde solution of the class (h_tb solve), self-checked in this same run."""
import concurrent.futures
import os
import random
import subprocess
import threading
import time

from .. import core, build as B, uci
from . import c12

NET = "material_1"
_tl = threading.local()


ORACLE_TAG = "C13"


class Dtm:
    def __init__(self, classes):
        self.p = subprocess.Popen([B.exe("rel", "h_tb"), "query"] + [c12.ind_path(c, ORACLE_TAG) for c in classes],
                                  stdin=subprocess.PIPE, stdout=subprocess.PIPE, text=True, bufsize=1)

    def ask(self, fen):
        self.p.stdin.write(fen + "\n"); self.p.stdin.flush()
        r = self.p.stdout.readline().split()
        if not r or r[0] in ("unknown", "badfen"):
            return None
        if r[0] == "draw":
            return ("draw", 0)
        return (r[0], int(r[1]))


def dtm_client(classes):
    d = getattr(_tl, "dtm", None)
    if d is None or d.p.poll() is not None:
        d = Dtm(classes)
        _tl.dtm = d
    return d


PIECES = {"Q": "Q", "R": "R", "B": "B", "N": "N"}
UNRELATED = ["rnbqkbnr/pppppppp/8/8/8/8/PPPPPPPP/RNBQKBNR w KQkq - 0 1", "r1bq1rk1/pp2ppbp/2np1np1/8/3NP3/2N1BP2/PPPQ2PP/R3KB1R w KQ - 3 9",
             "8/5pk1/6p1/3R4/2r4P/6P1/5PK1/8 w - - 0 40", "8/2p5/3p4/KP5r/1R3p1k/8/4P1P1/8 w - - 0 1", "4k3/8/8/8/8/8/4P3/4K3 w - - 0 1"]


def random_root(rnd, cls, ref, diagonal=False):
    """random legal placement of the class, as FEN without clocks"""
    k2 = cls.index("K", 1)
    white, black = cls[:k2], cls[k2:]
    for _ in range(1000):
        sqs = rnd.sample(range(64), len(cls))
        if diagonal:
            # all men on one long diagonal: the placements that are their own mirror image (the table generator folds the board along
            # the a1-h8 diagonal, so these are the entries where a move and its mirror image coincide)
            d = [i * 9 for i in range(8)] if rnd.random() < .5 else [7 + i * 7 for i in range(8)]
            sqs = rnd.sample(d, len(cls))
        board = [None] * 64
        for ch, s in zip(white, sqs[:len(white)]):
            board[s] = ch
        for ch, s in zip(black, sqs[len(white):]):
            board[s] = ch.lower()
        rows = []
        for r in range(7, -1, -1):
            row, e = "", 0
            for f in range(8):
                c = board[r * 8 + f]
                if c is None:
                    e += 1
                else:
                    if e:
                        row += str(e); e = 0
                    row += c
            if e:
                row += str(e)
            rows.append(row)
        fen = "/".join(rows) + " " + rnd.choice("wb") + " - -"
        st = ref.ask("status %s 0 1" % fen)
        # legality of the placement: opponent not in check, kings apart -> refchess 'plausible' is implied by the engine's reader; ask the engine-independent oracle
        flipped = fen.replace(" w ", " X ").replace(" b ", " w ").replace(" X ", " b ")
        leg, chk = ref.legal(flipped + " 0 1")
        if chk:      # side not to move is in check
            continue
        if st.startswith("mate") or st.startswith("stalemate"):
            continue
        # kings adjacent?
        wk, bk = sqs[0], sqs[len(white)]
        if abs(wk % 8 - bk % 8) <= 1 and abs(wk // 8 - bk // 8) <= 1:
            continue
        return fen
    return None


def judge(dtm, ref, fen, lines, best, three_men):
    v = []
    val = dtm.ask(fen)
    if val is None:
        return [("oracle-unknown", fen)], "unknown"
    hmc = int(fen.split()[4])
    r = 100 - hmc
    kind, n = val
    p = 0 if kind == "draw" else (2 * n - 1 if kind == "win" else 2 * n)
    last = None
    saw_tb = False
    for l in lines:
        k, m = uci.classify(l)
        if k == "pv":
            last = m
            if m.group("tbhits"):
                saw_tb = True
            pv = m.group("pv").split()
            ok, msg = ref.apply(fen, pv)
            if not ok:
                v.append(("illegal-pv", "%s : %s" % (fen, l)))
    if last is None or not saw_tb:
        return v, "no-tb-output"
    got_kind, got = last.group("kind"), int(last.group("score"))
    bk, bm = uci.classify(best)
    mv = bm.group("move") if bk == "bestmove" else None
    succ = None
    if mv and mv != "0000":
        ok, f2 = ref.apply(fen, [mv])
        if ok:
            succ = dtm.ask(f2)
    zone = "exact"
    if kind == "draw":
        zone = "draw"
        if got_kind != "cp":
            v.append(("mate-score-on-drawn-root", "%s -> %s" % (fen, last.group(0))))
        # a successor that is won for the opponent on the board is a loss only if that win can be completed before the 50-move limit
        # (the table knows nothing about the clock: with clock 97 a 'win in 13' through a capture on the way cannot be judged here)
        if succ and succ[0] == "win" and 2 * succ[1] - 1 <= 100 - (hmc + 1):
            v.append(("draw-turned-into-loss", "%s bestmove %s (successor is won for the opponent in %d)" % (fen, mv, succ[1])))
    elif p <= r:
        want = n if kind == "win" else -n
        if got_kind != "mate" or got != want:
            v.append(("inexact-tb-score", "%s exact value %s %d, engine reports '%s %d%s'" % (fen, kind, n, got_kind, got, last.group("bound") or "")))
        if succ is not None:
            if kind == "win" and not (succ[0] == "loss" and succ[1] == n - 1):
                v.append(("win-not-kept-on-shortest-path", "%s (win in %d) bestmove %s -> successor %s %d" % (fen, n, mv, succ[0], succ[1])))
            if kind == "loss" and not (succ[0] == "win" and succ[1] == n):
                v.append(("not-longest-defence", "%s (loss in %d) bestmove %s -> successor %s %d" % (fen, n, mv, succ[0], succ[1])))
    else:
        zone = "beyond-50-move-limit"
        if got_kind == "mate":
            if three_men:
                v.append(("mate-announced-beyond-50-move-limit", "%s exact %s %d needs %d plies, %d left -> %s" % (fen, kind, n, p, r, last.group(0))))
            elif abs(got) < n:
                v.append(("mate-faster-than-table", "%s exact %s %d -> %s" % (fen, kind, n, last.group(0))))
    return v, zone


def worker(args):
    seed, classes, all_classes, nroots = args
    rnd = random.Random(seed)
    ref = uci.RefCli.get()
    dtm = dtm_client(all_classes)
    res = dict(viol=[], n=0, zones={}, samples=[], incon=0, fens=set())
    eng = uci.Engine("rel", NET)
    script = []

    def send(c):
        script.append(c); eng.send(c)

    send("uci")
    send("setoption name Hash value %d" % rnd.choice([8, 16, 64]))
    send("setoption name Threads value %d" % rnd.choice([1, 1, 2, 3, 4]))
    eng.isready()
    cls = rnd.choice(classes)
    try:
        for i in range(nroots):
            if rnd.random() < .12:
                cls = rnd.choice(classes)
            base = random_root(rnd, cls, ref, diagonal=rnd.random() < .12)
            if not base:
                continue
            hmc = rnd.choice([0, 0, 0, rnd.randint(1, 60), rnd.randint(60, 99), rnd.randint(90, 99)])
            val0 = dtm.ask(base + " 0 1")
            if val0 and val0[0] != "draw" and rnd.random() < .45:
                # clocks right at the 50-move margin of this root: the mate needs p plies, 100-hmc are left
                p_need = 2 * val0[1] - 1 if val0[0] == "win" else 2 * val0[1]
                hmc = min(99, max(0, 100 - p_need + rnd.choice([-2, -1, 0, 0, 1, 1, 2])))
                res["boundary"] = res.get("boundary", 0) + 1
            fen = "%s %d %d" % (base, hmc, 60)
            if i > 0 and rnd.random() < .3:
                # unrelated timed searches in between: the resident table is kept for a few of them (and must stay protected from their
                # hash traffic), then dropped; afterwards the material of the table is searched again
                for _ in range(rnd.randint(1, 6)):
                    st0 = eng.nlines()
                    send("position fen " + rnd.choice(UNRELATED))
                    send("go movetime %d" % rnd.choice([15, 30, 60]))
                    if not eng.wait_for(lambda l: l.startswith("bestmove"), st0, 60):
                        res["viol"].append(("no-bestmove", " ; ".join(script[-8:])))
                        raise StopIteration
                res["unrelated"] = res.get("unrelated", 0) + 1
            if i > 0 and rnd.random() < .15:
                send(rnd.choice(["ucinewgame", "setoption name Clear Hash"]))
                res["cleared"] = res.get("cleared", 0) + 1
            send("position fen " + fen)
            if len(cls) == 4 and rnd.random() < .3:
                # a search stopped during table generation, then the real one
                st0 = eng.nlines()
                send("go infinite")
                time.sleep(rnd.choice([0.02, 0.1, 0.3, 0.8]))
                send("stop")
                if not eng.wait_for(lambda l: l.startswith("bestmove"), st0, 60):
                    res["viol"].append(("no-bestmove", " ; ".join(script[-8:])))
                    break
            st = eng.nlines()
            send("go infinite")
            # tablebase output, or the search ran out of depth without needing a probe (clock at 99: everything is a 50-move draw)
            hit = eng.wait_for(lambda l: " tbhits " in l or l.startswith("info depth 100"), st, 20)
            if hit:
                time.sleep(0.05)
            send("stop")
            r = eng.wait_for(lambda l: l.startswith("bestmove"), st, 60)
            if not r:
                res["viol"].append(("no-bestmove", " ; ".join(script[-8:])))
                break
            with eng.cv:
                lines = [t for _, t in eng.lines[st:r[0]]]
            v, zone = judge(dtm, ref, fen, lines, r[1], len(cls) == 3)
            sc = " ; ".join(script[-6:])
            res["viol"] += [(k, w + " | " + sc) for k, w in v]
            res["n"] += 1
            res["zones"][zone] = res["zones"].get(zone, 0) + 1
            if zone == "no-tb-output":
                res["incon"] += 1
            res["fens"].add(fen)
            if len(res["samples"]) < 1 and zone == "exact":
                res["samples"].append("%s -> %s ; %s" % (fen, [l for l in lines if " pv " in l][-1:], r[1]))
    except StopIteration:
        pass
    finally:
        rc = eng.close()
        if rc != 0:
            res["viol"].append(("exit-status", "rc=%s" % rc))
    return res


def run(c):
    quick = c.tier == "quick"
    B.build([("rel", "texel"), ("rel", "h_tb"), ("rel", "refchess-cli")])
    core.ensure_nets([NET])
    rnd = random.Random(c.seed)
    three = ["KQK", "KRK", "KBK", "KNK", "KKQ", "KKR"]
    black_major = ["KNKR", "KBKR", "KRKR", "KNKQ", "KBKQ", "KRKQ", "KQKQ"]      # the table is not colour symmetric: black mating material vs a white piece
    four = (["KQKR", rnd.choice(black_major), rnd.choice([x for x in c12.FOUR if x != "KQKR" and x not in black_major])]) if quick else list(c12.FOUR)
    all_classes = three + four
    global ORACLE_TAG
    ORACLE_TAG = "C13"
    st = c12.solve(c, all_classes, ORACLE_TAG)     # independent of the engine's generator: a broken generator shows up as wrong engine output here
    c.samples = []
    nroots = int((448 if quick else 12000) * c.scale)
    per = 14        # the table of a class is generated once per process and reused, so further roots of the class are cheap
    jobs = []
    for i in range(max(1, nroots // per)):
        # 4-men jobs start in a class assigned round-robin (every class gets whole jobs) and switch class now and then (table replacement)
        cl = three if i % 2 == 0 else ([four[(i // 2) % len(four)]] * 3 + four)
        jobs.append((c.seed * 10000 + i, cl, all_classes, per))
    zones, tot, incon = {}, 0, 0
    boundary = 0
    unrelated = cleared = 0
    fens = set()
    with concurrent.futures.ThreadPoolExecutor(max_workers=core.NCPU) as ex:
        for r in ex.map(worker, jobs):
            for kind, wit in r["viol"]:
                c.violation("tb-exact-results", kind, wit)
            tot += r["n"]; incon += r["incon"]; boundary += r.get("boundary", 0); unrelated += r.get("unrelated", 0); cleared += r.get("cleared", 0)
            fens |= r["fens"]
            for k, v in r["zones"].items():
                zones[k] = zones.get(k, 0) + v
            for s in r["samples"]:
                c.sample(s)
    c.evaluations = tot
    c.distinct = len(fens)
    c.rule = ("one case = one 'go infinite' + stop on a random legal placement of a pawnless <=4-men class (3-men classes and 4-men classes, oracle = independent retrograde solution) with "
              "half-move clock in {0, 1..60, 60..99, 90..99} and, for 45% of the decisive roots, within +-2 of the clock at which the table's mate just fits before the 50-move limit, Hash in {8,16,64}, Threads 1..4, several roots per process (table reuse/replacement; 30% of the later roots preceded by 1..6 unrelated timed searches, 15% by Clear Hash or ucinewgame), 30% of 4-men roots "
              "preceded by a search stopped during table generation; judged: exact 'mate N' inside the 50-move margin, cp score on drawn roots, successor of bestmove keeps "
              "the value (shortest win / longest defence / no draw->loss), no mate score beyond the 50-move limit (3-men classes; 4-men: only N >= DTM). "
              "distinct_nontrivial = distinct root FENs that produced tablebase output")
    c.extra.update(roots_at_the_50_move_margin=boundary, roots_after_unrelated_timed_searches=unrelated, roots_after_clear_hash_or_ucinewgame=cleared, zones=zones, searches_without_tb_output=incon, oracle_classes=all_classes, oracle_positions_verified=st.get("positions_checked", 0), exhaustive=False)
    c.extra["inconclusive_allowed"] = 10 ** 9
    c.assumptions += ["DTM oracle = independent retrograde solution (h_tb solve: mini rules engine only, no engine code) that passed the exhaustive forward Bellman self-check in this run", "4-men roots beyond the 50-move margin are not judged for exactness"]
    if zones.get("exact", 0) == 0:
        raise core.HarnessError("no exact-zone case observed")
