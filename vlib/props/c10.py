"""C10 - search control always terminates with exactly one result.
The whole engine runs in-process under the cooperative scheduler (h_cos); the recorded trace of inputs, outputs
and hook events is checked offline."""
import concurrent.futures
import os
import random
import re

from .. import core, build as B

NET = "zero_1"
FENS = [
    "rnbqkbnr/pppppppp/8/8/8/8/PPPPPPPP/RNBQKBNR w KQkq - 0 1",
    "r3k2r/p1ppqpb1/bn2pnp1/3PN3/1p2P3/2N2Q1p/PPPBBPPP/R3K2R w KQkq - 0 1",
    "8/2p5/3p4/KP5r/1R3p1k/8/4P1P1/8 w - - 0 1",
    "r1bqkbnr/pppp1ppp/2n5/4p3/4P3/5N2/PPPP1PPP/RNBQKB1R w KQkq - 2 3",
    "rnbq1k1r/pp1Pbppp/2p5/8/2B5/8/PPP1NnPP/RNBQK2R w KQ - 1 8",
    "r4rk1/1pp1qppp/p1np1n2/2b1p1B1/2B1P1b1/P1NP1N2/1PP1QPPP/R4RK1 w - - 0 10",
    "8/8/8/4k3/8/8/3Q4/K6r w - - 0 1",
    "4k3/8/8/8/8/8/4P3/4K3 w - - 0 1",
    "7k/6Q1/6K1/8/8/8/8/8 b - - 0 1",        # checkmated root: no job is ever handed to a helper
    "7k/5Q2/6K1/8/8/8/8/8 b - - 0 1",        # stalemated root
    "7k/8/6K1/8/8/8/8/Q7 w - - 0 1",         # mate in one: the search runs out of depth at once, helpers end idle
]
EV = dict(WORKER_INIT_SEARCH=1, WORKER_JOB_RECEIVED=2, WORKER_SEARCH_BEGIN=3, WORKER_SEARCH_END=4, WORKER_REPORT_RESULT=5, MAIN_INIT_SEARCH=6,
          ROOT_JOB_START=7, HELPER_RESULT_ACCEPTED=8, ENGINE_SEARCH_BEGIN=9, ENGINE_SEARCH_END=10, FINISH_SEARCH=11)


def gen_script(rnd):
    """Returns (lines, description). Every search uses a different position so that stale work is recognisable."""
    threads = rnd.choice([1, 2, 2, 3, 4, 4, 5, 6, 6, 7, 8])
    lines = ["now 0 | uci", "now 0 | setoption name Threads value %d" % threads, "now 0 | isready"]
    fens = rnd.sample(FENS, len(FENS))
    if rnd.random() < .12:
        # helper-tree reshaping: with 6 or more threads the helpers form a tree, and every change of the count among 5..8 replaces
        # existing helpers by new ones right before the next search starts
        threads = rnd.choice([5, 6, 7, 8])
        lines[1] = "now 0 | setoption name Threads value %d" % threads
        nb, t = 0, threads
        for s in range(4):
            lines.append("%s | position fen %s" % ("best %d" % nb, fens[s]))
            lines.append("now 0 | go depth %d" % rnd.randint(1, 4)); nb += 1
            t = rnd.choice([x for x in (5, 6, 7, 8) if x != t])
            lines.append("best %d | setoption name Threads value %d" % (nb, t))
        lines.append("best %d | isready" % nb)
        lines.append("steps %d | quit" % rnd.randint(0, 20))
        return lines, "threads=%d reshape" % threads, 8
    nsearch = rnd.randint(2, 4)
    nbest = 0
    kinds = []
    ended = False
    for s in range(nsearch):
        fen = fens[s]
        wait = "best %d" % nbest if rnd.random() < .6 else "steps %d" % rnd.randint(0, 60)
        lines.append("%s | position fen %s" % (wait, fen))
        kind = rnd.choice(["finish", "finish", "stop", "ponderhit", "ponderstop", "backtoback", "optthreads", "optthreads", "optduring", "newgame", "quit", "eof"])
        kinds.append(kind)
        d = rnd.randint(3, 7)
        rel = lambda: "steps %d" % rnd.choice([0, 1, 2, 5, 10, 30, 100, 300, 1000])
        if kind == "finish":
            lines.append("now 0 | go depth %d" % d); nbest += 1
        elif kind == "stop":
            lines.append("now 0 | go infinite"); lines.append("%s | stop" % rel()); nbest += 1
        elif kind == "ponderhit":
            lines.append("now 0 | go ponder wtime %d btime %d" % (rnd.choice([50, 300, 2000]), rnd.choice([50, 300, 2000])))
            lines.append("%s | ponderhit" % rel()); nbest += 1
        elif kind == "ponderstop":
            lines.append("now 0 | go ponder depth %d" % d); lines.append("%s | stop" % rel()); nbest += 1
        elif kind == "backtoback":
            lines.append("now 0 | go depth %d" % (d + 2))
            lines.append("%s | position fen %s" % (rel(), fens[(s + 4) % len(fens)]))
            lines.append("now 0 | go depth %d" % d); nbest += 2
        elif kind == "optthreads":
            lines.append("now 0 | go depth %d" % d); nbest += 1
            lines.append("best %d | setoption name Threads value %d" % (nbest, rnd.choice([1, 2, 3, 4, 5, 6, 6, 7, 7, 8])))     # 5 <-> 6 and above: the helper tree is reshaped, existing helpers are replaced
        elif kind == "optduring":
            lines.append("now 0 | go infinite")
            lines.append("%s | setoption name %s" % (rel(), rnd.choice(["Threads value 2", "Threads value 5", "Hash value 1", "MultiPV value 2", "Clear Hash", "UseNullMove value false"])))
            lines.append("%s | isready" % rel())
            lines.append("%s | stop" % rel()); nbest += 1
        elif kind == "newgame":
            lines.append("now 0 | go depth %d" % (d + 1)); lines.append("%s | ucinewgame" % rel()); nbest += 1
        elif kind == "quit":
            lines.append("now 0 | go %s" % rnd.choice(["infinite", "depth %d" % (d + 3), "ponder wtime 100 btime 100"]))
            lines.append("%s | quit" % rel()); nbest += 1; ended = True
            break
        elif kind == "eof":
            lines.append("now 0 | go %s" % rnd.choice(["infinite", "depth %d" % (d + 3)]))
            lines.append("%s | isready" % rel()); nbest += 1; ended = True
            break
    if not ended:
        lines.append("best %d | isready" % nbest)
        if rnd.random() < .7:
            lines.append("steps %d | quit" % rnd.randint(0, 20))
    return lines, "threads=%d %s" % (threads, "+".join(kinds)), threads


def parse(out):
    recs = []
    result = None
    for l in out.splitlines():
        if l.startswith("RESULT"):
            result = l
            continue
        p = l.split(" ", 4)
        if len(p) < 5 or p[0] not in ("IN", "OUT", "EV", "LIM", "POLL", "WAKE", "EVALDIFF"):
            continue
        try:
            recs.append((p[0], int(p[1]), int(p[2]), int(p[3]), p[4]))
        except ValueError:
            continue
    return recs, result


def check_trace(recs, result):
    """The C10 oracle over one recorded execution. Returns list of (kind, detail)."""
    v = []
    if result is None:
        return [("no-result-line", "process died without RESULT")], {}
    if result.startswith("RESULT deadlock"):
        return [("deadlock", result[:400])], {}
    n_go = n_best = n_finish = 0
    inside = {}          # threadNo -> depth of doSearch nesting
    cur_root = None      # root hash of the current (latest initialised) search
    cur_job = None
    reports = []         # (jobId, rootHash, index)
    job_start_idx = -1
    accepted = 0
    go_idx = []
    best_idx = []
    engine_begin_idx = []
    max_inside = 0
    for i, (tag, step, vt, th, text) in enumerate(recs):
        if tag == "IN":
            if text.split()[:1] == ["go"]:
                n_go += 1; go_idx.append(i)
        elif tag == "OUT":
            if text.startswith("bestmove"):
                n_best += 1; best_idx.append(i)
        elif tag == "EV":
            k, a, b, c = [int(x) for x in text.split()]
            if k == EV["MAIN_INIT_SEARCH"]:
                cur_root = a; cur_job = None
            elif k == EV["ROOT_JOB_START"]:
                cur_job = a; job_start_idx = i
            elif k == EV["WORKER_SEARCH_BEGIN"]:
                inside[a] = inside.get(a, 0) + 1
                max_inside = max(max_inside, sum(1 for x in inside.values() if x > 0))
                if cur_root is not None and c != cur_root:
                    v.append(("helper-searching-previous-position", "worker %d entered doSearch (job %d) at step %d with root hash %x while the current search has root %x" % (a, b, step, c & (2**64 - 1), cur_root & (2**64 - 1))))
            elif k == EV["WORKER_SEARCH_END"]:
                inside[a] = inside.get(a, 0) - 1
            elif k == EV["WORKER_REPORT_RESULT"]:
                reports.append((b, c, i))
            elif k == EV["HELPER_RESULT_ACCEPTED"]:
                accepted += 1
                if cur_job is None or a != cur_job:
                    v.append(("result-for-wrong-job", "accepted jobId %d at step %d, current job %s" % (a, step, cur_job)))
                ok = any(j == a and h == cur_root and idx > job_start_idx for j, h, idx in reports)
                if not ok:
                    v.append(("result-attributed-to-wrong-search", "accepted jobId %d at step %d but no worker reported that job for the current root after the job started" % (a, step)))
            elif k == EV["ENGINE_SEARCH_BEGIN"]:
                engine_begin_idx.append(i)
            elif k == EV["ENGINE_SEARCH_END"]:
                busy = [t for t, n in inside.items() if n > 0]
                if busy:
                    v.append(("helper-not-idle-when-search-declared-over", "workers %s still inside doSearch at step %d" % (busy, step)))
            elif k == EV["FINISH_SEARCH"]:
                n_finish += 1
    if n_best != n_go or n_finish != n_go:
        v.append(("bestmove-count", "go=%d bestmove=%d finishSearch=%d" % (n_go, n_best, n_finish)))
    for k in range(min(len(go_idx), len(best_idx))):
        if best_idx[k] < go_idx[k]:
            v.append(("bestmove-before-go", "bestmove #%d precedes its go" % (k + 1)))
        if k + 1 < len(engine_begin_idx) and best_idx[k] > engine_begin_idx[k + 1]:
            v.append(("bestmove-after-next-search-began", "bestmove #%d appears after search #%d began" % (k + 1, k + 2)))
    m = re.search(r"steps (\d+) events (\d+) switches (\d+) spurious (\d+) threads (\d+) schedhash (\w+)", result)
    info = dict(accepted=accepted, max_helpers_inside=max_inside, n_go=n_go)
    if m:
        info.update(steps=int(m.group(1)), events=int(m.group(2)), switches=int(m.group(3)), spurious=int(m.group(4)), threads=int(m.group(5)), schedhash=m.group(6))
    return v, info


def one(args):
    idx, seed, thorough = args
    rnd = random.Random(seed)
    lines, desc, threads = gen_script(rnd)
    sf = os.path.join(core.TMP, "c10_%d_%d.script" % (os.getpid(), idx))
    with open(sf, "w") as f:
        f.write("\n".join(lines) + "\n")
    strat = rnd.choice(["random", "random", "pct"])
    args = [B.exe("rel", "h_cos"), sf, "seed=%d" % seed, "strategy=" + strat]
    if strat == "pct":
        args += ["pct=%d" % rnd.choice([2, 3]), "horizon=%d" % rnd.choice([500, 3000, 20000])]
    if thorough and rnd.random() < .5:
        args.append("spurious=%d" % rnd.choice([5, 30]))
    if rnd.random() < .3:
        args.append("unlock=1")
    r = core.run_proc(args, env={"VERIF_NET": core.net_path(NET)}, timeout=300)
    os.unlink(sf)
    recs, result = parse(r.stdout)
    if r.timeout:
        return dict(viol=[], incon="watchdog: " + " ".join(args[2:]) + " | " + desc, info={}, desc=desc, script=lines, args=args[2:])
    v, info = check_trace(recs, result)
    if r.rc not in (0, 3) and not v:
        v.append(("crash", "rc=%s %s" % (r.rc, r.stderr[-300:])))
    return dict(viol=v, incon=None, info=info, desc=desc, script=lines, args=args[2:], threads=threads)


def run(c):
    quick = c.tier == "quick"
    n = int((320 if quick else 8000) * c.scale)
    B.build([("rel", "h_cos")])
    core.ensure_nets([NET])
    hashes = set()
    tot = dict(steps=0, events=0, switches=0, accepted=0, spurious=0)
    kinds = {}
    maxin = 0
    with concurrent.futures.ThreadPoolExecutor(max_workers=core.NCPU) as ex:
        for r in ex.map(one, [(i, c.seed * 1000000 + i, not quick) for i in range(n)]):
            if r["incon"]:
                c.inconclusive.append(r["incon"])
                continue
            for kind, det in r["viol"]:
                c.violation("cosched-trace", kind, "%s | %s | script: %s" % (det, " ".join(r["args"]), " ;; ".join(r["script"])))
            inf = r["info"]
            if "schedhash" in inf:
                hashes.add(inf["schedhash"])
            for k in tot:
                tot[k] += inf.get(k, 0)
            maxin = max(maxin, inf.get("max_helpers_inside", 0))
            for k in r["desc"].split(" ", 1)[1].split("+"):
                kinds[k] = kinds.get(k, 0) + 1
            if len(c.samples) < 3:
                c.sample("%s [%s]: %s" % (r["desc"], " ".join(r["args"]), " ;; ".join(r["script"]))[:700])
    c.evaluations = n
    c.distinct = len(hashes)
    c.rule = ("one case = one (script, seed): scripts chain 2..4 searches on different positions from {go depth/finish, go infinite/stop, go ponder/ponderhit, go ponder/stop, back-to-back go, "
              "setoption Threads between searches, setoption during search, ucinewgame during search, quit during search, EOF during search} with Threads 1..8 and release points drawn "
              "from the seed (after n scheduler steps / after the k-th bestmove); the real engine threads run under the cooperative scheduler (uniform random or PCT with 2-3 priority "
              "change points; optionally a scheduling point after every unlock; thorough: spec-permitted spurious condition-variable wake-ups). Oracle over the recorded trace: one bestmove and one "
              "finishSearch per go in order, all workers outside doSearch when the engine thread declares the search over, accepted helper results carry the current job id and were "
              "reported for the current root, no worker enters doSearch with an older root, no deadlock (= no runnable thread), clean return from UCIProtocol::main. "
              "distinct_nontrivial = distinct schedule digests (hash of the sequence of scheduling decisions)")
    c.extra.update(scheduling_steps=tot["steps"], intercepted_sync_calls=tot["events"], context_switches=tot["switches"], helper_results_accepted=tot["accepted"],
                   spurious_wakeups_injected=tot["spurious"], max_helpers_simultaneously_in_search=maxin, script_kinds=kinds, exhaustive=False,
                   bounded_enumeration="not run: schedules are sampled (uniform + PCT), no depth-first enumeration is claimed")
    c.extra["inconclusive_allowed"] = max(2, n // 100)
    c.assumptions += ["the scheduler serialises threads: it explores interleavings at synchronisation points (mutex lock/unlock, condition wait/notify, thread start/exit/join, sleeps), "
                      "not weak-memory effects or data races between them (C09)", "virtual clock: time advances per searched node and jumps to the earliest sleeper when nothing is runnable"]
    if tot["accepted"] == 0:
        c.inconclusive.append("no helper result was accepted in any run")
