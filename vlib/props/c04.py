"""C04 - announced mates are real. Real texel at full strength, depth-limited searches (so the on-demand
tablebase never triggers); every 'score mate N' claim is judged by (a) DTM tables verified in this run,
(b) refchess' exhaustive mate solver, (c) mate-in-one enumeration."""
import concurrent.futures
import random
import subprocess

from .. import core, build as B, uci
from . import c12, c13

NETS = ["material_1", "material_2", "random-small_1"]


def gen(mode, seed, n, *extra):
    out = subprocess.run([B.exe("rel", "posgen-cli"), mode, str(seed), str(n)] + [str(x) for x in extra], stdout=subprocess.PIPE, text=True, check=True).stdout
    return [l for l in out.splitlines() if l]


class Oracle:
    def __init__(self, ref, dtm):
        self.ref, self.dtm = ref, dtm
        self.unchecked = 0

    def mates_within(self, fen, n):
        """True/False/None(undecidable): side to move can force mate in <= n moves"""
        if self.dtm:
            v = self.dtm.ask(fen)
            if v is not None:
                return v[0] == "win" and v[1] <= n
        if n <= 3:
            r = self.ref.matesin(fen, n, 4000000)
            return None if r == "abort" else r == "yes"
        if n == 4:
            r = self.ref.matesin(fen, n, 3000000)
            return None if r == "abort" else r == "yes"
        return None

    def lost_within(self, fen, n):
        if self.dtm:
            v = self.dtm.ask(fen)
            if v is not None:
                return v[0] == "loss" and v[1] <= n
        st = self.ref.status(fen)
        if st.startswith("mate"):
            return True
        if n <= 3:
            r = self.ref.lostin(fen, n, 4000000)
            return None if r == "abort" else r == "yes"
        return None


def judge_search(orc, ref, fen, lines, best, completed, script):
    v = []
    nclaims = 0
    last = None
    for l in lines:
        k, m = uci.classify(l)
        if k != "pv":
            continue
        last = m
        if m.group("kind") == "mate":
            n = int(m.group("score"))
            bound = (m.group("bound") or "").strip()
            if n > 0 and bound != "upperbound":
                r = orc.mates_within(fen, n)
                nclaims += 1
                if r is None:
                    orc.unchecked += 1
                elif not r:
                    v.append(("false-mate-announcement", "%s : '%s' but no forced mate in <= %d | %s" % (fen, l, n, script)))
    if last is None or best is None:
        return v, nclaims
    bk, bm = uci.classify(best)
    mv = bm.group("move") if bk == "bestmove" else None
    if last.group("kind") == "mate" and not last.group("bound"):
        n = int(last.group("score"))
        if n > 0 and mv and mv != "0000":
            ok, f2 = ref.apply(fen, [mv])
            if ok:
                r = orc.lost_within(f2, n - 1)
                nclaims += 1
                if r is None:
                    orc.unchecked += 1
                elif not r:
                    v.append(("bestmove-loses-the-mate", "%s : final '%s', bestmove %s, successor not lost within %d | %s" % (fen, last.group(0), mv, n - 1, script)))
        if n < 0 and completed:
            r = orc.lost_within(fen, -n)
            nclaims += 1
            if r is None:
                orc.unchecked += 1
            elif not r:
                v.append(("false-mated-announcement", "%s : final '%s' but the root is not lost within %d | %s" % (fen, last.group(0), -n, script)))
    return v, nclaims


def worker(args):
    seed, kind, items, all_classes = args
    rnd = random.Random(seed)
    ref = uci.RefCli.get()
    dtm = c13.dtm_client(all_classes) if kind == "tb" else None
    orc = Oracle(ref, dtm)
    net = rnd.choice(NETS)
    eng = uci.Engine("rel", net)
    res = dict(viol=[], searches=0, claims=0, unchecked=0, samples=[], fens=set(), m1=0)
    cfg = "Hash %d Threads %d UseNullMove %s net %s" % (rnd.choice([1, 16]), rnd.choice([1, 1, 2, 4]), rnd.choice(["true", "true", "false"]), net)
    eng.send("uci")
    for name, val in zip(cfg.split()[0::2][:3], cfg.split()[1::2][:3]):
        eng.send("setoption name %s value %s" % (name, val))
    eng.isready()
    try:
        for it in items:
            if kind == "tb":
                fen = it
                men = sum(1 for ch in fen.split()[0] if ch.isalpha())
                depths = [rnd.randint(1, 14 if men <= 3 else 9)]
            elif kind == "solver":
                fen, _, nn = it.partition(" | ")
                depths = [rnd.randint(1, 10)]
            elif kind == "forced":
                # a check with exactly one legal reply: searched before the check and (half of the time) after it
                parts = [x.strip() for x in it.split("|")]
                fen = parts[0]
                if rnd.random() < .5:
                    ok, fen = ref.apply(fen, [parts[1]])
                    assert ok, it
                depths = rnd.sample(range(1, 9), 2)
            else:
                parts = [x.strip() for x in it.split("|")]
                fen, mates = parts[0], parts[1].split()
                # checkmate ends the game before any 50-move claim: a mate in one stays 'mate 1' for every half-move
                # clock <= 99, in particular 99, where the mated side could claim a draw were it not mated (seeded C04-E)
                ff = fen.split()
                if len(ff) == 6 and ff[3] == "-" and rnd.random() < .5:
                    ff[4] = str(99 if rnd.random() < .6 else rnd.randint(60, 99))
                    fen = " ".join(ff)
                    res["m1_high_clock"] = res.get("m1_high_clock", 0) + 1
                depths = list(range(1, 15)) if rnd.random() < .25 else rnd.sample(range(1, 15), 3)
            for d in depths:
                if rnd.random() < .1:
                    eng.send("setoption name Clear Hash")
                eng.send("position fen " + fen)
                go = "go depth %d" % d
                ls, best = eng.go(go, timeout=60)
                script = "%s ; position fen %s ; %s" % (cfg, fen, go)
                completed = True
                if best is None:
                    # slow, not wrong: stop it and judge only the claims made so far (not the 'completed search' clause)
                    completed = False
                    res["slow"] = res.get("slow", 0) + 1
                    st0 = eng.nlines()
                    eng.send("stop")
                    r2 = eng.wait_for(lambda l: l.startswith("bestmove"), st0, 60)
                    best = r2[1] if r2 else None
                    if best is None:
                        res["viol"].append(("search-does-not-stop", "no bestmove within 60 s of 'stop' | " + script))
                        eng.close("kill")
                        raise StopIteration
                v, nc = judge_search(orc, ref, fen, ls, best, completed, script)
                res["viol"] += v
                res["claims"] += nc
                res["searches"] += 1
                res["fens"].add(fen)
                if kind == "mate1" and completed:
                    res["m1"] += 1
                    last = None
                    for l in ls:
                        k, m = uci.classify(l)
                        if k == "pv":
                            last = m
                    bk, bm = uci.classify(best)
                    fin = "%s %s%s" % (last.group("kind"), last.group("score"), last.group("bound") or "") if last else "none"
                    if fin != "mate 1":
                        res["viol"].append(("mate-in-one-not-reported", "%s depth %d final score '%s' | %s" % (fen, d, fin, script)))
                    if bk != "bestmove" or bm.group("move") not in mates:
                        res["viol"].append(("mate-in-one-not-played", "%s depth %d %s (mating moves: %s) | %s" % (fen, d, best, " ".join(mates), script)))
                if len(res["samples"]) < 1 and nc:
                    res["samples"].append("%s ; %s -> %s" % (fen, go, [l for l in ls if " pv " in l][-1:]))
    except StopIteration:
        pass
    finally:
        eng.close()
    res["unchecked"] = orc.unchecked
    return res


def run(c):
    quick = c.tier == "quick"
    B.build([("rel", "texel"), ("rel", "h_tb"), ("rel", "refchess-cli"), ("rel", "posgen-cli")])
    core.ensure_nets(NETS)
    rnd = random.Random(c.seed)
    classes = ["KQK", "KRK", "KKQ", "KKR", "KQKR", "KBNK"] + ([] if quick else ["KRKN", "KQKQ", "KBBK", "KRKB", "KKRR", "KQKN", "KRRK", "KKBN"])
    c13.ORACLE_TAG = "C04"
    st = c12.solve(c, classes, "C04")
    c.samples = []
    ref = uci.RefCli.get()
    n_tb = int((320 if quick else 20000) * c.scale)
    n_solver = int((240 if quick else 8000) * c.scale)
    n_m1 = int((600 if quick else 20000) * c.scale)
    tb_roots = []
    while len(tb_roots) < n_tb:
        f = c13.random_root(rnd, rnd.choice(classes), ref)
        if f:
            tb_roots.append(f + " 0 1")
    solver = gen("mates", c.seed, n_solver, 3)
    m1 = gen("mate1", c.seed, n_m1)
    forced = gen("onlyreply", c.seed, int((400 if quick else 12000) * c.scale))
    reply_kinds = {}
    for l in forced:
        t = l.split("|")[3].strip()
        reply_kinds[t] = reply_kinds.get(t, 0) + 1
    kinds_seen = {}
    for l in m1:
        for t in l.split("|")[2].split():
            kinds_seen[t] = kinds_seen.get(t, 0) + 1
    jobs = []
    def chunks(lst, k):
        return [lst[i:i + k] for i in range(0, len(lst), k)]
    for i, ch in enumerate(chunks(tb_roots, 12)):
        jobs.append((c.seed * 100000 + i, "tb", ch, classes))
    for i, ch in enumerate(chunks(solver, 8)):
        jobs.append((c.seed * 100000 + 30000 + i, "solver", ch, classes))
    for i, ch in enumerate(chunks(m1, 25)):
        jobs.append((c.seed * 100000 + 60000 + i, "mate1", ch, classes))
    for i, ch in enumerate(chunks(forced, 20)):
        jobs.append((c.seed * 100000 + 80000 + i, "forced", ch, classes))
    tot = dict(searches=0, claims=0, unchecked=0, m1=0, slow=0, m1_high_clock=0)
    fens = set()
    with concurrent.futures.ThreadPoolExecutor(max_workers=core.NCPU) as ex:
        for r in ex.map(worker, jobs):
            for kind, wit in r["viol"]:
                c.violation("mate-claims", kind, wit)
            for k in tot:
                tot[k] += r.get(k, 0)
            fens |= r["fens"]
            for s in r["samples"]:
                c.sample(s)
    c.evaluations = tot["searches"]
    c.distinct = len(fens)
    c.rule = ("one case = one depth-limited search (depth 1..14) at full strength on (a) a random legal placement of a <=4-men pawnless class (oracle: independent retrograde solution of the class, checked by the "
              "forward Bellman equations in this run), (b) an attack-biased position where refchess' exhaustive solver found a forced mate in <=3, (c) a position with a mate in one "
              "(25% of them searched at every depth 1..14; half of them with half-move clock 60..99), (d) a position with a check that leaves exactly one legal reply - half of them built so that the reply is a pawn "
              "double step onto the checking line - searched before or after the check (a generator that loses the reply turns the check into a false mate); Hash in {1,16}, Threads in {1,2,4}, UseNullMove on/off, 3 networks; every positive 'mate N' line that is not an "
              "upper bound, the final best move and every final 'mate -N' of a completed search are judged. distinct_nontrivial = distinct root positions searched")
    c.extra.update(mate_claims_judged=tot["claims"] - tot["unchecked"], mate_claims_unchecked_no_oracle=tot["unchecked"],
                   mate_in_one_searches=tot["m1"], mate_in_one_roots_with_half_move_clock_60_to_99=tot["m1_high_clock"], slow_searches_stopped=tot["slow"], mate_in_one_kinds=kinds_seen, only_reply_roots=len(forced), only_reply_kinds=reply_kinds, tb_roots=len(tb_roots), solver_roots=len(solver), exhaustive=False)
    c.assumptions += ["DTM oracle: independent retrograde solution (no engine code), self-checked in this run; refchess solver exhaustive up to 3 moves (4 with a node cap, else counted as unchecked)",
                      "draw claims (repetition/50 moves) are ignored by the solver: roots have half-move clock 0 and no history, except half of the mate-in-one roots, which get clock 60..99 (60%: 99) - checkmate by the next move precedes any 50-move claim"]
    if tot["claims"] - tot["unchecked"] == 0:
        raise core.HarnessError("no mate claim judged")
    for k in ("block-pawn2", "block-piece", "capture", "king-move"):
        if reply_kinds.get(k, 0) == 0:
            raise core.HarnessError("only-reply kind %s never generated" % k)
    for k in ("promo", "double", "discovered"):
        if kinds_seen.get(k, 0) == 0 and not quick:
            raise core.HarnessError("mate-in-one kind %s never generated" % k)
