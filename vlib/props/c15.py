"""C15 - reverse move generation is complete and consistent with forward moves (h_rev, refchess judges)."""
import os
from .. import core, build as B


def run(c):
    quick = c.tier == "quick"
    n_rel = int((240000 if quick else 10000000) * c.scale)
    n_asan = int((24000 if quick else 600000) * c.scale)
    B.build([("rel", "h_rev"), ("asan", "h_rev")])
    shards = core.NCPU
    cmds, hfiles = [], []
    for i in range(shards):
        hf = os.path.join(core.TMP, "c15_%d_%d.h64" % (os.getpid(), i))
        hfiles.append(hf)
        cmds.append([B.exe("rel", "h_rev"), str(c.seed * 1000 + i), str(n_rel // shards), hf])
    for i in range(shards):
        cmds.append([B.exe("asan", "h_rev"), str(c.seed * 1000 + 500 + i), str(n_asan // shards)])
    res = core.run_many(cmds, timeout=3600)
    c.absorb("revmoves-vs-forward", res[:shards])
    c.absorb("revmoves-asan", res[shards:])
    st = core.merge_stats(res)
    c.evaluations = st.get("pairs", 0)
    c.distinct = core.count_distinct(hfiles)
    c.rule = ("(P, m) pairs along seeded random legal games (start position, tricky positions, promotion-storm starts, synthetic starts; e.p. square normalised after every move as "
              "Game does - RevMoveGen's documented domain): completeness = genMoves(P.m, includeAllEpSquares=true) lists m with P's captured piece, castling rights and e.p. square, "
              "and with false whenever P had no e.p. square; consistency (25% of the Q plus synthetic placements) = every listed un-move restores a position refchess finds plausible "
              "(one king each, no pawn on rank 1/8, opponent not in check, castling rights with pieces at home, e.p. square geometrically possible) in which the move is legal and "
              "replays (with e.p. fix-up) to exactly Q with the same undo information; no duplicates. distinct_nontrivial = distinct (P, m) that capture, promote, lose castling "
              "rights or start from a position with an e.p. square (rel shards)")
    keys = ["pairs_castling", "pairs_en_passant", "pairs_promotion", "pairs_capture_promotion", "pairs_losing_castling_rights", "pairs_with_ep_in_predecessor"]
    c.extra.update({k: st.get(k, 0) for k in keys})
    c.extra.update(unmoves_listed=st.get("unmoves_listed", 0), unmoves_checked_for_consistency=st.get("unmoves_checked", 0),
                   synthetic_positions=st.get("synthetic_positions", 0), exhaustive=False)
    c.assumptions += ["refchess decides plausibility/legality of predecessors"]
    for k in keys:
        if st.get(k, 0) == 0:
            raise core.HarnessError("move class %s never produced" % k)
