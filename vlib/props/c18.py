"""C18 - the opening book never yields an illegal move (h_book under ASan + rel; UCI slice with OwnBook/BookFile)."""
import os
import random

LEVEL = "fault_enumeration"

from .. import core, build as B, uci


def uci_slice(c, n):
    """OwnBook with the built-in book and with damaged polyglot files: bestmove must be legal."""
    ref = uci.RefCli.get()
    rnd = random.Random(c.seed)
    bad = os.path.join(core.TMP, "c18_uci_%d.bin" % os.getpid())
    done = 0
    for i in range(n):
        eng = uci.Engine("asan" if i % 2 else "rel", "material_1")
        eng.send("uci")
        eng.send("setoption name OwnBook value true")
        kind = rnd.choice(["builtin", "garbage", "missing", "dir"])
        if kind == "garbage":
            with open(bad, "wb") as f:
                f.write(bytes(rnd.randrange(256) for _ in range(rnd.choice([0, 5, 16, 160, 1603]))))
            eng.send("setoption name BookFile value " + bad)
        elif kind == "missing":
            eng.send("setoption name BookFile value /nonexistent/book.bin")
        elif kind == "dir":
            eng.send("setoption name BookFile value " + core.TMP)
        eng.isready()
        fen = uci.START_FEN
        moves = []
        for ply in range(rnd.randint(1, 8)):
            eng.send("position startpos" + (" moves " + " ".join(moves) if moves else ""))
            ls, best = eng.go("go depth 2", timeout=60)
            done += 1
            if not best:
                c.violation("uci-ownbook", "no-bestmove", "%s book, moves %s" % (kind, moves))
                break
            bm = best.split()[1]
            legal, _ = ref.legal(fen)
            if bm not in legal:
                c.violation("uci-ownbook", "illegal-bestmove", "%s book: position startpos moves %s -> %s" % (kind, " ".join(moves), best))
                break
            moves.append(bm)
            ok, fen = ref.apply(uci.START_FEN, moves)
        rc = eng.close()
        if rc != 0:
            c.violation("uci-ownbook", "exit-status", "rc=%s with %s book" % (rc, kind))
        for rep in core.sanitizer_reports(eng.stderr_text()):
            c.violation("uci-ownbook", "sanitizer", core.report_key(rep), detail=rep["raw"])
    if os.path.exists(bad):
        os.unlink(bad)
    return done


def run(c):
    quick = c.tier == "quick"
    B.build([("rel", "h_book"), ("asan", "h_book"), ("rel", "texel"), ("asan", "texel"), ("rel", "refchess-cli")])
    core.ensure_nets(["material_1"])
    nfiles = int((208 if quick else 5200) * c.scale)
    S = core.NCPU
    hfiles = []
    cmds = []
    for i in range(S):
        hf = os.path.join(core.TMP, "c18_%d_%d.h64" % (os.getpid(), i)); hfiles.append(hf)
        v = "asan" if i % 2 == 0 else "rel"
        cmds.append([B.exe(v, "h_book"), str(c.seed * 1000 + i), str(max(1, nfiles // S)), core.TMP, hf])
    res = core.run_many(cmds, timeout=7200)
    c.absorb("book-probes", res)
    st = core.merge_stats(res)
    nuci = uci_slice(c, 8 if quick else 100)
    c.evaluations = st.get("probes", 0) + nuci
    c.distinct = core.count_distinct(hfiles) + st.get("files_damaged", 0)
    c.rule = ("built-in book: random walks along its own lines from the initial position plus random positions; polyglot files written by the harness with the repository's key function "
              "(1..40 book positions from random games, castling in both encodings, promotions, zero weights, weight 65535, up to 200 noise entries for other keys, sorted) probed on "
              "their own positions (2000 probes on one position per file for the frequency claim: every stored move with weight share >= 2% must appear; smaller shares are counted as "
              "not asserted) and on unrelated positions; and their damaged versions: truncation at every length residue mod 16, bit flips in key/move/weight, shuffled order, all keys "
              "equal, one key with 3000/40000 entries of weight 65535, empty file, missing file, a directory. Every probe result must be empty or legal per refchess, under ASan/UBSan "
              "in half of the shards. UCI slice: OwnBook=true with built-in/garbage/missing/directory BookFile, bestmove legal. distinct_nontrivial = distinct well-formed files + damaged files")
    c.extra.update({k: st.get(k, 0) for k in ("probes", "probes_with_move", "files_wellformed", "files_damaged", "builtin_line_moves", "frequency_positions",
                                               "frequency_moves_asserted", "frequency_moves_not_asserted_small_share", "castling_entries_king_takes_rook",
                                               "castling_entries_king_two_squares", "promotion_entries", "zero_weight_entries", "listings")})
    c.extra.update(uci_searches=nuci, exhaustive=False)
    c.assumptions += ["refchess legality", "Book::getAllBookMoves (console listing) is only exercised on books whose entries are all legal; it is not the probe path"]
    for k in ("castling_entries_king_takes_rook", "castling_entries_king_two_squares", "promotion_entries", "zero_weight_entries", "frequency_moves_asserted"):
        if st.get(k, 0) == 0:
            raise core.HarnessError("book feature %s never generated" % k)
