"""C14 - Clear Hash makes the next search identical to a fresh start (two real processes per case)."""
import concurrent.futures
import random
import re
import time

from .. import core, build as B, uci
from .c03 import gen_positions

NET = "material_1"
PRIOR_FENS = ["8/8/8/4k3/8/8/3Q4/K7 w - - 0 1", "8/8/8/4k3/8/8/3R4/K7 b - - 0 1", "8/8/3k4/8/8/2BN4/8/K7 w - - 0 1",
              "r3k2r/p1ppqpb1/bn2pnp1/3PN3/1p2P3/2N2Q1p/PPPBBPPP/R3K2R w KQkq - 0 1",
              "8/2p5/3p4/KP5r/1R3p1k/8/4P1P1/8 w - - 0 1", "rnbqkbnr/pppppppp/8/8/8/8/PPPPPPPP/RNBQKBNR w KQkq - 0 1"]


def normalise(lines):
    out = []
    last_stats = None
    for i, l in enumerate(lines):
        if l.startswith("info nodes "):
            last_stats = i          # periodic statistics lines depend on wall time; only the final one is a result
    for i, l in enumerate(lines):
        k, m = uci.classify(l)
        if k == "pv":
            out.append("d%s %s %s%s n%s pv%s" % (m.group("depth"), m.group("kind"), m.group("score"), m.group("bound") or "", m.group("nodes"), m.group("pv")))
        elif k == "bestmove":
            out.append(l)
        elif k == "stats" and i == last_stats:
            out.append("nodes %s" % m.group(1))
    return out


def probe(eng, fen, go):
    eng.send("position fen " + fen)
    ls, best = eng.go(go, timeout=300)
    return normalise(ls), best


def prior_session(eng, rnd, fens, nprior, script, probe_hash=16):
    changed = {}
    defaults = dict(Hash=probe_hash, Threads=1, MultiPV=1, Contempt=0, UseNullMove="true", Strength=1000, OwnBook="false",
                    UCI_AnalyseMode="false", AnalyzeContempt=0, Ponder="false", MaxNPS=0, UCI_LimitStrength="false")

    def send(c):
        script.append(c)
        eng.send(c)

    for i in range(nprior):
        if rnd.random() < .35:
            name, val = rnd.choice([("Hash", 2), ("Hash", 64), ("Threads", 2), ("Threads", 4), ("MultiPV", 3), ("Contempt", 80), ("Contempt", -40),
                                    ("UseNullMove", "false"), ("Strength", 300), ("OwnBook", "true"), ("UCI_AnalyseMode", "true"),
                                    ("AnalyzeContempt", 50), ("Ponder", "true"), ("UCI_LimitStrength", "true")])
            changed[name] = val
            send("setoption name %s value %s" % (name, val))
        if rnd.random() < .1:
            send("ucinewgame")
        f = rnd.choice(fens) if rnd.random() < .7 else rnd.choice(PRIOR_FENS)
        send("position fen " + f)
        few = sum(1 for ch in f.split()[0] if ch.isalpha()) <= 4
        k = rnd.choice(["depth", "depth", "nodes", "movetime", "clock", "infinite"]) if not few else "infinite"
        weak = changed.get("Strength", 1000) != 1000 or changed.get("UCI_LimitStrength") == "true"
        if k == "depth" and weak:
            k = "nodes"
        if k == "depth":
            go = "go depth %d" % rnd.randint(1, 5)
        elif k == "nodes":
            go = "go nodes %d" % rnd.choice([100, 3000, 30000])
        elif k == "movetime":
            go = "go movetime %d" % rnd.choice([5, 30])
        elif k == "clock":
            go = "go wtime %d btime %d" % (rnd.choice([100, 1000]), rnd.choice([100, 1000]))
        else:
            go = "go infinite"
        start = eng.nlines()
        send(go)
        if k == "infinite":
            if few:
                eng.wait_for(lambda l: " tbhits " in l, start, 4.0)
            else:
                time.sleep(rnd.choice([0.005, 0.05]))
            send("stop")
        if not eng.wait_for(lambda l: l.startswith("bestmove"), start, 30):
            send("stop")
            if not eng.wait_for(lambda l: l.startswith("bestmove"), start, 60):
                return False
    for name in changed:
        send("setoption name %s value %s" % (name, defaults[name]))
    return True


def case(args):
    seed, fens, nprior, maxd = args[:4]
    directed = args[4] if len(args) > 4 else None
    rnd = random.Random(seed)
    fen = rnd.choice(fens)
    go = ("go depth %d" % rnd.randint(6, maxd)) if rnd.random() < .7 else ("go nodes %d" % rnd.choice([20000, 100000, 300000]))
    # the probe's hash size is part of the case: small tables make replacement and index mapping matter
    # (8 MB is the smallest size that can host an on-demand tablebase)
    ph = rnd.choice([1, 8, 8, 16])
    if directed == "tb8":          # a resident on-demand tablebase before Clear Hash, probe large relative to an 8 MB table
        ph, go = 8, "go depth %d" % min(10, maxd + 1)
        fen = rnd.choice(["rnbqkbnr/pppppppp/8/8/8/8/PPPPPPPP/RNBQKBNR w KQkq - 0 1", "r1bqkbnr/pppp1ppp/2n5/4p3/4P3/5N2/PPPP1PPP/RNBQKB1R w KQkq - 2 3"])
    elif directed == "contempt1":  # a non-zero contempt search before Clear Hash, probe large relative to a 1 MB table
        ph, go = 1, "go depth %d" % min(10, maxd + 1)
        fen = rnd.choice(["rnbqkbnr/pppppppp/8/8/8/8/PPPPPPPP/RNBQKBNR w KQkq - 0 1", "r1bq1rk1/pp2bppp/2n1pn2/2pp4/3P1B2/2PBPN2/PP1N1PPP/R2QK2R w KQ - 0 8",
                          "r1bqkbnr/pppp1ppp/2n5/4p3/4P3/5N2/PPPP1PPP/RNBQKB1R w KQkq - 2 3", "rnbqkb1r/pp2pppp/3p1n2/8/3NP3/2N5/PPP2PPP/R1BQKB1R b KQkq - 2 5"])
    elif directed == "same-big":   # table sizes above 16 MB are cleared by a thread pool in chunks; the prior session searches the probe
        # position itself (deeper), so that any entry that survives Clear Hash is hit by the probe
        ph, go = rnd.choice([17, 20, 24, 33, 100]), "go depth %d" % min(9, maxd)
        fen = rnd.choice(["rnbqkbnr/pppppppp/8/8/8/8/PPPPPPPP/RNBQKBNR w KQkq - 0 1", "r1bq1rk1/pp2bppp/2n1pn2/2pp4/3P1B2/2PBPN2/PP1N1PPP/R2QK2R w KQ - 0 8",
                          "r1bqkbnr/pppp1ppp/2n5/4p3/4P3/5N2/PPPP1PPP/RNBQKB1R w KQkq - 2 3"])
    elif directed == "same-clock":  # the probe's placement searched before with other half-move clocks (>= 40: the evaluation is
        # scaled by the clock): whatever is cached per placement instead of per (placement, clock) and survives Clear Hash shows here
        go = "go depth %d" % rnd.randint(4, min(9, maxd))
        ff = fen.split(); ff[4] = "0"; fen = " ".join(ff)
    res = dict(viol=[], sample="%s | %s | Hash %d | prior=%d" % (fen, go, ph, nprior), nprior=nprior)
    a = uci.Engine("rel", NET)
    a.send("uci"); a.send("setoption name Hash value %d" % ph); a.isready()
    ta, _ = probe(a, fen, go)
    a.close()
    a2 = uci.Engine("rel", NET)
    a2.send("uci"); a2.send("setoption name Hash value %d" % ph); a2.isready()
    ta2, _ = probe(a2, fen, go)
    ta2b, _ = None, None
    a2.close()
    if ta != ta2:
        res["viol"].append(("fresh-not-deterministic", "%s | %s | Hash %d" % (fen, go, ph), diff(ta, ta2)))
        return res
    b = uci.Engine("rel", NET)
    script = []
    b.send("uci"); b.send("setoption name Hash value %d" % ph); b.isready()
    script.append("setoption name Hash value %d" % ph)
    if directed == "tb8":
        for f in rnd.sample(PRIOR_FENS[:3], 2):
            b.send("position fen " + f); script.append("position fen " + f)
            st0 = b.nlines(); b.send("go infinite"); script.append("go infinite")
            b.wait_for(lambda l: " tbhits " in l, st0, 10.0)
            b.send("stop"); script.append("stop")
            b.wait_for(lambda l: l.startswith("bestmove"), st0, 60)
    elif directed == "contempt1":
        for cmd in ("setoption name Contempt value %d" % rnd.choice([80, -60, 300]), "position fen " + rnd.choice(fens), "go depth 6"):
            b.send(cmd); script.append(cmd)
        b.wait_for(lambda l: l.startswith("bestmove"), 0, 120)
        b.send("setoption name Contempt value 0"); script.append("setoption name Contempt value 0")
    elif directed == "same-big":
        for cmd in ("position fen " + fen, "go depth %d" % (min(9, maxd) + 3)):
            b.send(cmd); script.append(cmd)
        b.wait_for(lambda l: l.startswith("bestmove"), 0, 300)
    elif directed == "same-clock":
        for hm in rnd.sample(range(40, 100), 3):
            ff = fen.split(); ff[4] = str(hm)
            cmds = ("position fen " + " ".join(ff), "go depth %d" % rnd.randint(4, 8))
            script.extend(cmds)
            b.send(cmds[0])
            b.go(cmds[1], timeout=300)
    ok = prior_session(b, rnd, fens, nprior if not directed else rnd.randint(0, 3), script, ph)
    if not ok:
        b.close("kill")
        res["inconclusive"] = "prior session did not answer: " + " ; ".join(script[-6:])
        return res
    b.send("setoption name Clear Hash"); script.append("setoption name Clear Hash")
    tb, _ = probe(b, fen, go)
    b.send("setoption name Clear Hash")
    tb2, _ = probe(b, fen, go)
    b.close()
    sc = " ; ".join(script)
    if tb != ta:
        res["viol"].append(("clear-hash-differs-from-fresh", "%s | %s | Hash %d | prior(%d): %s" % (fen, go, ph, nprior, sc), diff(ta, tb)))
    elif tb2 != ta:
        res["viol"].append(("second-clear-hash-differs", "%s | %s | Hash %d | prior(%d): %s" % (fen, go, ph, nprior, sc), diff(ta, tb2)))
    res["lines"] = len(ta)
    return res


def diff(x, y):
    for i, (a, b) in enumerate(zip(x, y)):
        if a != b:
            return "first difference at line %d:\n  fresh : %s\n  other : %s" % (i, a, b)
    return "length %d vs %d; tails: %s | %s" % (len(x), len(y), x[-1:] , y[-1:])


def run(c):
    quick = c.tier == "quick"
    n = int((32 if quick else 1500) * c.scale)
    B.build([("rel", "texel"), ("rel", "posgen-cli")])
    core.ensure_nets([NET])
    fens = [f for f in gen_positions(c.seed + 77, 400 if quick else 5000)]
    rnd = random.Random(c.seed)
    jobs = []
    forced = [14, 15, 16, 17, 18, 30, 31, 32, 33, 34]
    for i in range(n):
        nprior = forced[i % len(forced)] if i % 3 == 0 else rnd.randint(1, 40)
        jobs.append((c.seed * 100000 + i, fens, nprior, 9 if quick else 11))
    for i in range(max(12, n // 3)):
        jobs.append((c.seed * 100000 + 50000 + i, fens, 2, 9 if quick else 11, ("tb8", "contempt1", "same-big", "same-clock")[i % 4]))
    npr = []
    seen = set()
    with concurrent.futures.ThreadPoolExecutor(max_workers=core.NCPU) as ex:
        for r in ex.map(case, jobs):
            for kind, wit, det in r["viol"]:
                # key on the kind + number of prior searches class, witness in detail
                c.violation("clearhash-vs-fresh", kind, wit, detail=det)
            if r.get("inconclusive"):
                c.inconclusive.append(r["inconclusive"])
            npr.append(r["nprior"])
            seen.add(r["sample"])
            if len(c.samples) < 4:
                c.sample(r["sample"])
    c.evaluations = len(jobs)
    c.distinct = len(seen)
    c.rule = ("one case = (probe position, probe command depth 6..9 or nodes, probe hash size 1/8/16 MB set at the start of both processes, seeded prior session of 1..40 searches of all limit kinds on unrelated positions incl. "
              "<=4-men 'go infinite' until tbhits, ucinewgame, option changes reverted before Clear Hash); compared transcripts: every 'info ... score ... nodes ... pv' line "
              "(time/nps removed), final node count and the bestmove line; fresh engine run twice (determinism), probe repeated after a second Clear Hash; "
              "prior lengths 14..18 and 30..34 forced in a third of the cases; directed cases: tablebase left resident at Hash 8 before Clear Hash with a depth-10 probe, non-zero contempt search at Hash 1 with a depth-9 probe, Hash 17/20/24/33/100 (cleared in chunks by a thread pool) with the probe position itself searched deeper before Clear Hash, the probe placement searched with three half-move clocks 40..99 before Clear Hash and a clock-0 probe; distinct_nontrivial = distinct (position, probe, prior length)")
    c.extra.update(prior_lengths_min=min(npr), prior_lengths_max=max(npr), cases_with_prior_15_to_17=len([x for x in npr if 15 <= x <= 17]), exhaustive=False)
    c.assumptions += ["Threads=1 in the probe; synthetic network material_1"]
