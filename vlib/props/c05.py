"""C05 - UCI session contract: random command sequences against the real process (ASan/UBSan build,
plus a rel slice), an isready-flood stress for line interleaving, and directed option-change scripts."""
import concurrent.futures
import random
import time

from .. import core, build as B, uci, sessions

NETS = ["material_1", "random-small_1"]


def one(args):
    variant, seed = args
    rnd = random.Random(seed)
    cmds, end = sessions.gen_session(rnd)
    # most sessions initialise the engine first (uci/isready as a GUI does); some do not
    if rnd.random() < .7:
        cmds = [("uci", 0), ("isready", 0)] + cmds
    t0 = time.time()
    eng, rc = sessions.run_session(variant, rnd.choice(NETS), cmds, end)
    v = sessions.judge(eng, rc, end)
    script = " ; ".join(c for c, _ in cmds) + " ; <%s>" % end
    return dict(viol=v, script=script, stderr=eng.stderr_text(), ncmd=len(cmds), rc=rc, transcript=eng.transcript() if v else "",
                ngo=sum(1 for c, _ in cmds if c.startswith("go")), nlines=len(eng.lines), wall=time.time() - t0)


def flood(variant, seconds, threads):
    """Hammer isready while a search prints currmove/pv lines: every output line must still be well formed."""
    eng = uci.Engine(variant, "material_1")
    eng.send("setoption name Threads value %d" % threads)
    eng.send("position startpos")
    eng.send("go infinite")
    n = 0
    t0 = time.time()
    while time.time() - t0 < seconds:
        for _ in range(200):
            eng.send("isready")
        n += 200
    eng.send("stop")
    rc = eng.close("quit", timeout=120)
    bad = [l for _, l in eng.lines if uci.classify(l)[0] is None]
    ready = sum(1 for _, l in eng.lines if l == "readyok")
    return dict(sent=n, lines=len(eng.lines), readyok=ready, bad=bad, rc=rc, stderr=eng.stderr_text())


def directed_multipv(variant):
    """Option change during a search: the running search still delivers its single bestmove, the next search uses the new value."""
    v = []
    eng = uci.Engine(variant, "material_1")
    eng.send("uci"); eng.send("isready")
    eng.send("position startpos")
    eng.send("go infinite")
    time.sleep(0.2)
    eng.send("setoption name MultiPV value 3")
    eng.send("isready")
    time.sleep(0.1)
    n0 = eng.nlines()
    eng.send("stop")
    r = eng.wait_for(lambda l: l.startswith("bestmove"), 0, 30)
    if not r:
        v.append(("option-change-disturbed-search", "no bestmove after stop"))
    with eng.cv:
        during = [l for _, l in eng.lines if " multipv " in l]
    if during:
        v.append(("option-applied-to-running-search", during[0]))
    ls, best = eng.go("go depth 5", timeout=60)
    idx = set()
    for l in ls:
        k, m = uci.classify(l)
        if k == "pv" and m.group("multipv"):
            idx.add(int(m.group("multipv")))
    if idx != {1, 2, 3}:
        v.append(("option-change-not-applied", "MultiPV=3 set during search; next search printed indices %s" % sorted(idx)))
    rc = eng.close("quit")
    v += sessions.judge(eng, rc, "quit")
    return v, eng.transcript()


class TraceEngine:
    """Adapter: a recorded h_cos trace presented like uci.Engine for the session oracle (time = scheduler step)."""
    def __init__(self, recs):
        self.sent, self.lines = [], []
        self.t_close = None
        for tag, step, vt, th, text in recs:
            if tag == "IN":
                if text == "<EOF>":
                    self.t_close = step
                else:
                    self.sent.append((step, text, len(self.lines)))
            elif tag == "OUT":
                self.lines.append((step, text))


def scheduled_one(args):
    """The same random sessions, run in-process under the cooperative scheduler: delays are scheduler steps."""
    import os
    from . import c10
    idx, seed = args
    rnd = random.Random(seed)
    cmds, end = sessions.gen_session(rnd, maxlen=40)
    if rnd.random() < .7:
        cmds = [("uci", 0), ("isready", 0)] + cmds
    lines = []
    ngo = 0
    for cmd, d in cmds:
        if "\t" in cmd or cmd.strip() == "":
            cmd = "isready"
        # resource heavy values are pointless in-process
        if cmd.startswith("setoption name Hash") and cmd.split()[-1] not in ("1", "2", "4", "16"):
            cmd = "setoption name Hash value 4"
        if "BookFile" in cmd or "TbPath" in cmd or "SyzygyPath" in cmd or "ContemptFile" in cmd:
            cmd = "isready"
        lines.append(cmd)
        if cmd.startswith("go"):
            ngo += 1
    script = []
    nb = 0
    prev_delay = 0
    for cmd in lines:
        w = "bestb %d" % nb if prev_delay == "best" else ("steps %d" % rnd.choice([0, 0, 1, 3, 10, 50, 400]))
        script.append("%s | %s" % (w, cmd))
        if cmd.startswith("go"):
            nb += 1
        prev_delay = rnd.choice([0, 0, 0, "best"])
    if end == "quit":
        script.append("steps %d | quit" % rnd.choice([0, 5, 200]))
    sf = os.path.join(core.TMP, "c05s_%d_%d.script" % (os.getpid(), idx))
    with open(sf, "w") as f:
        f.write("\n".join(script) + "\n")
    a = [B.exe("rel", "h_cos"), sf, "seed=%d" % seed, "strategy=" + rnd.choice(["random", "pct"]), "pct=2", "maxsteps=3000000"]
    r = core.run_proc(a, env={"VERIF_NET": core.net_path("zero_1")}, timeout=240)
    os.unlink(sf)
    if r.timeout:
        return dict(viol=[], incon="watchdog " + " ".join(a[2:]), script=script, args=a[2:], nlines=0)
    recs, result = c10.parse(r.stdout)
    eng = TraceEngine(recs)
    rc = 0 if (result or "").startswith("RESULT ok") else None
    v = sessions.judge(eng, rc, end)
    if "step limit exceeded" in r.stderr:
        return dict(viol=[], incon="step limit " + " ".join(a[2:]), script=script, args=a[2:], nlines=0)
    if result and result.startswith("RESULT deadlock"):
        v.append(("deadlock", result[:300]))
    elif result is None:
        v.append(("crash", "rc=%s %s" % (r.rc, r.stderr[-300:])))
    return dict(viol=v, incon=None, script=script, args=a[2:], nlines=len(eng.lines))


def directed_book_ponder(variant):
    """OwnBook: a book move found during 'go ponder' must still wait for ponderhit/stop."""
    v = []
    eng = uci.Engine(variant, "material_1")
    eng.send("uci"); eng.send("setoption name OwnBook value true"); eng.send("isready")
    for pos_cmd, release in (("position startpos", "ponderhit"), ("position startpos moves e2e4", "stop"), ("position startpos moves d2d4 d7d5", "ponderhit")):
        eng.send(pos_cmd)
        eng.send("go ponder wtime 60000 btime 60000")
        time.sleep(0.4)
        eng.send(release)
        eng.wait_for(lambda l: l.startswith("bestmove"), 0, 30)
        time.sleep(0.05)
    rc = eng.close("quit")
    v += sessions.judge(eng, rc, "quit")
    return v, eng.transcript()


def directed_throttle(variant):
    """MaxNPS at its declared minimum: the node-rate throttle must not make the engine deaf to stop, isready, a new go or quit.
    (Before fix F19 the throttle slept totalNodes/MaxNPS seconds in one piece: 51 s after a 51-node quiescence burst.)"""
    v = []
    eng = uci.Engine(variant, "material_1")
    eng.send("uci"); eng.send("setoption name MaxNPS value 1"); eng.send("isready")
    eng.send("position fen r3k2r/p1ppqpb1/bn2pnp1/3PN3/1p2P3/2N2Q1p/PPPBBPPP/R3K2R w KQkq - 0 1")
    for release in ("stop", "go"):
        st = eng.nlines()
        eng.send("go infinite")
        time.sleep(2.5)
        t = time.time()
        eng.send("stop" if release == "stop" else "go depth 1")
        eng.send("isready")
        r = eng.wait_for(lambda l: l.startswith("bestmove"), st, 25)
        r2 = eng.wait_for(lambda l: l == "readyok", st, 5)
        if not r or not r2:
            v.append(("deaf-during-node-rate-throttle", "MaxNPS 1, go infinite, 2.5 s, then '%s' + isready: %s within %.0f s" %
                      (release, "no bestmove" if not r else "no readyok", time.time() - t)))
            break
        if release == "go":
            eng.send("stop")
            eng.wait_for(lambda l: l.startswith("bestmove"), r[0] + 1, 25)
    rc = eng.close("quit", timeout=25)
    v += [x for x in sessions.judge(eng, rc, "quit") if x[0] not in [y[0] for y in v]]
    return v, eng.transcript()


def directed_limits(variant):
    """Every limit kind must end a search by itself, also when the search started as 'go ponder' and was released by ponderhit,
    and also with a clock value at or below zero (flag already fallen). Wall-clock waits are watchdogs: the searches need
    milliseconds, the watchdog is 15 s, and a miss is re-run once before it is reported."""
    cases = [(["go ponder depth 3", "ponderhit"], "ponderhit with a depth limit already reached"),
             (["go ponder nodes 500", "ponderhit"], "ponderhit with a node limit already reached"),
             (["go ponder mate 1", "ponderhit"], "ponderhit with a mate-search depth limit already reached"),
             (["go ponder movetime 50", "ponderhit"], "ponderhit with a move time"),
             (["go ponder wtime 2000 btime 2000 depth 2", "ponderhit"], "ponderhit with clock and depth limit"),
             (["go wtime 1000 btime -500"], "negative clock of the side to move"),
             (["go wtime -500 btime 1000"], "negative clock of the side not to move"),
             (["go wtime 1000 btime 0"], "zero clock of the side to move"),
             (["go wtime -1 btime -1 winc -5 binc -5 movestogo -3"], "negative time control"),
             (["go searchmoves e7e5 g8f6 depth 3"], "depth limit after a searchmoves list"),
             (["go searchmoves e7e5 nodes 500"], "node limit after a searchmoves list"),
             (["go searchmoves e7e5 d7d5 movetime 50"], "move time after a searchmoves list"),
             (["go searchmoves e7e5 wtime 300 btime 300"], "clock after a searchmoves list"),
             (["go depth 3 searchmoves e7e5 g8f6"], "depth limit before a searchmoves list"),
             (["go mate 1"], "mate search"), (["go depth 2 nodes 100000 movetime 5000"], "several limits at once")]
    v = []
    eng = uci.Engine(variant, "material_1")
    eng.send("uci"); eng.send("isready")
    for cmds, what in cases:
        for attempt in (0, 1):
            eng.send("position startpos moves e2e4")
            st = eng.nlines()
            for c in cmds:
                eng.send(c)
                if c.startswith("go ponder"):
                    time.sleep(0.6)
            r = eng.wait_for(lambda l: l.startswith("bestmove"), st, 15)
            if r:
                break
            eng.send("stop")
            eng.wait_for(lambda l: l.startswith("bestmove"), st, 15)
        else:
            # ('go depth 0', 'go wtime 0 btime 0' and the like are not in the list: a zero value is how the parser represents an absent
            # parameter, so they legitimately mean a search without that limit)
            v.append(("limit-does-not-end-the-search", "%s: '%s' -> no bestmove within 15 s (twice)" % (what, " ; ".join(cmds))))
    rc = eng.close("quit", timeout=25)
    v += sessions.judge(eng, rc, "quit")
    return v, eng.transcript()


def run(c):
    quick = c.tier == "quick"
    n_asan = int((160 if quick else 2400) * c.scale)
    n_rel = int((80 if quick else 800) * c.scale)
    B.build([("rel", "texel"), ("asan", "texel")])
    core.ensure_nets(NETS)
    jobs = [("asan", c.seed * 1000000 + i) for i in range(n_asan)] + [("rel", c.seed * 1000000 + 500000 + i) for i in range(n_rel)]
    scripts = set()
    tot = dict(ncmd=0, ngo=0, nlines=0)
    with concurrent.futures.ThreadPoolExecutor(max_workers=core.NCPU) as ex:
        for r in ex.map(one, jobs):
            for kind, det in r["viol"]:
                c.violation("session-contract", kind, "%s | %s" % (det, r["script"]), detail=r["transcript"])
            for rep in core.sanitizer_reports(r["stderr"]):
                c.violation("session-sanitizer", "sanitizer", core.report_key(rep), detail="script: %s\n%s" % (r["script"], rep["raw"]))
            scripts.add(r["script"])
            for k in tot:
                tot[k] += r[k]
            if len(c.samples) < 3 and r["ngo"] >= 2:
                c.sample(r["script"][:600])
    # isready flood (real parallelism needed for interleaving) - rel build, as fast as possible
    fl = flood("rel", 6 if quick else 60, 1)
    fl2 = flood("rel", 3 if quick else 30, 3)
    for f in (fl, fl2):
        for b in f["bad"][:5]:
            c.violation("isready-flood", "malformed-line", "interleaved/garbled output line: %r" % b[:200])
        if f["rc"] != 0:
            c.violation("isready-flood", "exit-status", "rc=%s" % f["rc"])
        elif f["readyok"] != f["sent"]:
            c.violation("isready-flood", "readyok-count", "sent %d got %d" % (f["sent"], f["readyok"]))
    for variant in ("rel", "asan"):
        v, tr = directed_book_ponder(variant)
        for kind, det in v:
            c.violation("book-move-during-ponder", kind, det, detail=tr)
        v, tr = directed_multipv(variant)
        for kind, det in v:
            c.violation("option-change-during-search", kind, det, detail=tr)
        v, tr = directed_throttle(variant)
        for kind, det in v:
            c.violation("node-rate-throttle", kind, det, detail=tr)
        v, tr = directed_limits(variant)
        for kind, det in v:
            c.violation("search-limits", kind, det, detail=tr)
    # scheduled in-process sessions (delays relative to search progress are literal scheduler steps; hangs are logical verdicts)
    B.build([("rel", "h_cos")])
    core.ensure_nets(["zero_1"])
    nsched = int((160 if quick else 2400) * c.scale)
    sched_lines = 0
    with concurrent.futures.ThreadPoolExecutor(max_workers=core.NCPU) as ex:
        for r in ex.map(scheduled_one, [(i, c.seed * 1000000 + 700000 + i) for i in range(nsched)]):
            if r["incon"]:
                c.inconclusive.append(r["incon"]); continue
            for kind, det in r["viol"]:
                c.violation("scheduled-session-contract", kind, "%s | %s | script: %s" % (det, " ".join(r["args"]), " ;; ".join(r["script"])))
            sched_lines += r["nlines"]
            scripts.add(" ;; ".join(r["script"]))
    c.extra["inconclusive_allowed"] = max(1, nsched // 50)
    c.evaluations = len(jobs) + 4 + nsched
    c.distinct = len([s for s in scripts if "go" in s])
    c.rule = ("one case = one process session: random command sequence (<=60 commands over uci/isready/setoption with every declared option and "
              "in/out-of-range values/ucinewgame/position/go of all kinds/stop/ponderhit/unknown words/blank lines, ended by quit or EOF) with random pacing "
              "(none, ms delays, wait-for-bestmove); 30% of sessions send commands before uci/isready; the same kind of session also runs in-process under the cooperative "
              "scheduler (h_cos) with delays counted in scheduler steps and seeded schedules, where a hang is a logical deadlock verdict; distinct_nontrivial = distinct scripts containing at least one go")
    c.extra.update(commands_sent=tot["ncmd"], go_commands=tot["ngo"], output_lines_checked=tot["nlines"],
                   flood_isready_sent=fl["sent"] + fl2["sent"], flood_lines_checked=fl["lines"] + fl2["lines"],
                   scheduled_sessions=nsched, scheduled_output_lines_checked=sched_lines, exhaustive=False)
    c.assumptions += ["Hash values above 128 MB and Threads above 8 are not exercised (16 concurrent sessions on a 62 GB box)",
                      "arrival times of output lines are taken at the reading side; an answer is 'too early' only if it arrived before the releasing command was even sent"]
