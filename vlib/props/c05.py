"""C05 - UCI session contract: random command sequences against the real process (ASan/UBSan build,
plus a rel slice), an isready-flood stress for line interleaving, and directed option-change scripts."""
import concurrent.futures
import random
import time

from .. import core, build as B, uci, sessions

NETS = ["material_1", "random-small_1"]


def one(args):
    variant, seed = args
    rnd = random.Random(seed)
    cmds, end = sessions.gen_session(rnd)
    # most sessions initialise the engine first (uci/isready as a GUI does); some do not
    if rnd.random() < .7:
        cmds = [("uci", 0), ("isready", 0)] + cmds
    t0 = time.time()
    eng, rc = sessions.run_session(variant, rnd.choice(NETS), cmds, end)
    v = sessions.judge(eng, rc, end)
    script = " ; ".join(c for c, _ in cmds) + " ; <%s>" % end
    return dict(viol=v, script=script, stderr=eng.stderr_text(), ncmd=len(cmds), rc=rc, transcript=eng.transcript() if v else "",
                ngo=sum(1 for c, _ in cmds if c.startswith("go")), nlines=len(eng.lines), wall=time.time() - t0)


def flood(variant, seconds, threads):
    """Hammer isready while a search prints currmove/pv lines: every output line must still be well formed."""
    eng = uci.Engine(variant, "material_1")
    eng.send("setoption name Threads value %d" % threads)
    eng.send("position startpos")
    eng.send("go infinite")
    n = 0
    t0 = time.time()
    while time.time() - t0 < seconds:
        for _ in range(200):
            eng.send("isready")
        n += 200
    eng.send("stop")
    rc = eng.close("quit", timeout=120)
    bad = [l for _, l in eng.lines if uci.classify(l)[0] is None]
    ready = sum(1 for _, l in eng.lines if l == "readyok")
    return dict(sent=n, lines=len(eng.lines), readyok=ready, bad=bad, rc=rc, stderr=eng.stderr_text())


def directed_multipv(variant):
    """Option change during a search: the running search still delivers its single bestmove, the next search uses the new value."""
    v = []
    eng = uci.Engine(variant, "material_1")
    eng.send("uci"); eng.send("isready")
    eng.send("position startpos")
    eng.send("go infinite")
    time.sleep(0.2)
    eng.send("setoption name MultiPV value 3")
    eng.send("isready")
    time.sleep(0.1)
    n0 = eng.nlines()
    eng.send("stop")
    r = eng.wait_for(lambda l: l.startswith("bestmove"), 0, 30)
    if not r:
        v.append(("option-change-disturbed-search", "no bestmove after stop"))
    with eng.cv:
        during = [l for _, l in eng.lines if " multipv " in l]
    if during:
        v.append(("option-applied-to-running-search", during[0]))
    ls, best = eng.go("go depth 5", timeout=60)
    idx = set()
    for l in ls:
        k, m = uci.classify(l)
        if k == "pv" and m.group("multipv"):
            idx.add(int(m.group("multipv")))
    if idx != {1, 2, 3}:
        v.append(("option-change-not-applied", "MultiPV=3 set during search; next search printed indices %s" % sorted(idx)))
    rc = eng.close("quit")
    v += sessions.judge(eng, rc, "quit")
    return v, eng.transcript()


def run(c):
    quick = c.tier == "quick"
    n_asan = int((160 if quick else 8000) * c.scale)
    n_rel = int((80 if quick else 2000) * c.scale)
    B.build([("rel", "texel"), ("asan", "texel")])
    core.ensure_nets(NETS)
    jobs = [("asan", c.seed * 1000000 + i) for i in range(n_asan)] + [("rel", c.seed * 1000000 + 500000 + i) for i in range(n_rel)]
    scripts = set()
    tot = dict(ncmd=0, ngo=0, nlines=0)
    with concurrent.futures.ThreadPoolExecutor(max_workers=core.NCPU) as ex:
        for r in ex.map(one, jobs):
            for kind, det in r["viol"]:
                c.violation("session-contract", kind, "%s | %s" % (det, r["script"]), detail=r["transcript"])
            for rep in core.sanitizer_reports(r["stderr"]):
                c.violation("session-sanitizer", "sanitizer", core.report_key(rep), detail="script: %s\n%s" % (r["script"], rep["raw"]))
            scripts.add(r["script"])
            for k in tot:
                tot[k] += r[k]
            if len(c.samples) < 3 and r["ngo"] >= 2:
                c.sample(r["script"][:600])
    # isready flood (real parallelism needed for interleaving) - rel build, as fast as possible
    fl = flood("rel", 6 if quick else 60, 1)
    fl2 = flood("rel", 3 if quick else 30, 3)
    for f in (fl, fl2):
        for b in f["bad"][:5]:
            c.violation("isready-flood", "malformed-line", "interleaved/garbled output line: %r" % b[:200])
        if f["rc"] != 0:
            c.violation("isready-flood", "exit-status", "rc=%s" % f["rc"])
        elif f["readyok"] != f["sent"]:
            c.violation("isready-flood", "readyok-count", "sent %d got %d" % (f["sent"], f["readyok"]))
    for variant in ("rel", "asan"):
        v, tr = directed_multipv(variant)
        for kind, det in v:
            c.violation("option-change-during-search", kind, det, detail=tr)
    c.evaluations = len(jobs) + 4
    c.distinct = len([s for s in scripts if "go" in s])
    c.rule = ("one case = one process session: random command sequence (<=60 commands over uci/isready/setoption with every declared option and "
              "in/out-of-range values/ucinewgame/position/go of all kinds/stop/ponderhit/unknown words/blank lines, ended by quit or EOF) with random pacing "
              "(none, ms delays, wait-for-bestmove); 30% of sessions send commands before uci/isready; distinct_nontrivial = distinct scripts containing at least one go")
    c.extra.update(commands_sent=tot["ncmd"], go_commands=tot["ngo"], output_lines_checked=tot["nlines"],
                   flood_isready_sent=fl["sent"] + fl2["sent"], flood_lines_checked=fl["lines"] + fl2["lines"], exhaustive=False)
    c.assumptions += ["Hash values above 128 MB and Threads above 8 are not exercised (16 concurrent sessions on a 62 GB box)",
                      "arrival times of output lines are taken at the reading side; an answer is 'too early' only if it arrived before the releasing command was even sent"]
