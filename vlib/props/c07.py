"""C07 - static evaluation is a pure, symmetric function of the position (h_eval; all SIMD variants)."""
import os
from .. import core, build as B

NETS = ["material_1", "material_2", "random-small_1", "random-wide_1", "extreme_1"]
SIMD = ["rel", "ssse3", "avx2", "avx512"]


def cpu_has(flag):
    try:
        return flag in open("/proc/cpuinfo").read()
    except OSError:
        return False


def run(c):
    quick = c.tier == "quick"
    variants = [v for v in SIMD if v == "rel" or (v == "ssse3" and cpu_has("ssse3")) or (v == "avx2" and cpu_has("avx2")) or
                (v == "avx512" and cpu_has("avx512f") and cpu_has("avx512bw") and cpu_has("avx512_vnni"))]
    B.build([(v, "h_eval") for v in variants] + [("asan", "h_eval")])
    core.ensure_nets(NETS)
    n_walks = int((2400 if quick else 120000) * c.scale)       # per network
    n_sym = int((40000 if quick else 2000000) * c.scale)
    n_stream = int((20000 if quick else 1000000) * c.scale)
    cmds, hfiles, groups = [], [], {}

    def add(name, lst):
        groups[name] = (len(cmds), len(cmds) + len(lst))
        cmds.extend(lst)

    inc, sym, inc_asan = [], [], []
    for ni, net in enumerate(NETS):
        env = {"VERIF_NET": core.net_path(net)}
        for i in range(3):
            hf = os.path.join(core.TMP, "c07_%d_%d_%d.h64" % (os.getpid(), ni, i)); hfiles.append(hf)
            # spread over the SIMD variants as well: the incremental update code is variant specific
            v = variants[(ni + i) % len(variants)]
            inc.append(([B.exe(v, "h_eval"), "inc", str(c.seed * 1000 + ni * 10 + i), str(n_walks // 3), hf], env))
        hf = os.path.join(core.TMP, "c07s_%d_%d.h64" % (os.getpid(), ni)); hfiles.append(hf)
        sym.append(([B.exe(variants[ni % len(variants)], "h_eval"), "sym", str(c.seed * 1000 + ni), str(n_sym // len(NETS)), hf], env))
        inc_asan.append(([B.exe("asan", "h_eval"), "inc", str(c.seed * 1000 + 500 + ni), str(max(1, n_walks // 20))], env))
    add("inc", inc); add("sym", sym); add("inc_asan", inc_asan)
    stream = []
    for net in NETS:
        for v in variants:
            stream.append(([B.exe(v, "h_eval"), "stream", str(c.seed), str(n_stream)], {"VERIF_NET": core.net_path(net)}))
    add("stream", stream)
    res = core.run_many(cmds, timeout=7200)
    st = {}
    for name, chk in (("inc", "eval-incremental-vs-fresh"), ("sym", "eval-symmetry"), ("inc_asan", "eval-asan-ubsan")):
        a, b = groups[name]
        c.absorb(chk, res[a:b])
        st[name] = core.merge_stats(res[a:b])
    # SIMD variants: block digests must agree
    a, b = groups["stream"]
    c.absorb("eval-stream", res[a:b])
    blocks_compared = 0
    k = a
    for net in NETS:
        ref_blocks = None
        for v in variants:
            r = res[k]; k += 1
            blocks = [l.split()[2] for l in r.stdout.splitlines() if l.startswith("BLOCK ")]
            if ref_blocks is None:
                ref_blocks, ref_v = blocks, v
                continue
            blocks_compared += len(blocks)
            if blocks != ref_blocks:
                bad = next((i for i, (x, y) in enumerate(zip(blocks, ref_blocks)) if x != y), min(len(blocks), len(ref_blocks)))
                # bisect the block to one position with verbose streams
                wit = "network %s: block %d differs between %s and %s" % (net, bad, ref_v, v)
                try:
                    outs = []
                    for vv in (ref_v, v):
                        rr = core.run_proc([B.exe(vv, "h_eval"), "stream", str(c.seed), str(min(n_stream, (bad + 1) * 1000))],
                                           env={"VERIF_NET": core.net_path(net), "VERIF_STREAM_VERBOSE": "1"}, timeout=3600)
                        outs.append([l for l in rr.stdout.splitlines() if l.startswith("POS ")])
                    for x, y in zip(*outs):
                        if x != y:
                            wit += " | first differing position: %s: %s  vs  %s: %s" % (ref_v, x, v, y)
                            break
                except Exception:
                    pass
                c.violation("eval-simd-variants", "variant-disagreement", wit)
    # part 2: the evaluator hook inside real (scheduled, multi-threaded) searches
    import random, re
    from . import c10
    B.build([("rel", "h_cos")])
    hook_checked = hook_evals = 0
    nhook = int((24 if quick else 1500) * c.scale)
    hcmds, hscripts = [], []
    for i in range(nhook):
        rnd = random.Random(c.seed * 7919 + i)
        lines, desc, threads = c10.gen_script(rnd)
        sf = os.path.join(core.TMP, "c07_%d_%d.script" % (os.getpid(), i))
        with open(sf, "w") as f:
            f.write("\n".join(lines) + "\n")
        hscripts.append(sf)
        net = NETS[i % len(NETS)]
        hcmds.append(([B.exe("rel", "h_cos"), sf, "seed=%d" % (c.seed * 100 + i), "evalcheck=%d" % rnd.choice([2, 5, 11, 30])], {"VERIF_NET": core.net_path(net)}))
    hres = core.run_many(hcmds, timeout=900)
    for sf in hscripts:
        os.unlink(sf)
    for r in hres:
        if r.timeout:
            c.inconclusive.append("h_cos evalcheck watchdog"); continue
        for l in r.stdout.splitlines():
            if l.startswith("EVALDIFF"):
                c.violation("eval-in-search-hook", "search-evaluation-differs-from-fresh", l.split(" ", 4)[4] + " | " + " ".join(r.cmd[2:]))
        m = re.search(r"evals (\d+) evalchecked (\d+) evalbad (\d+)", r.stdout)
        if m:
            hook_evals += int(m.group(1)); hook_checked += int(m.group(2))
        elif "RESULT deadlock" in r.stdout:
            c.inconclusive.append("h_cos deadlock during evalcheck run (C10's business)")
    c.extra["inconclusive_allowed"] = 2
    c.evaluations = hook_checked + st["inc"].get("evaluations", 0) + st["inc"].get("nn_evaluations", 0) + st["sym"].get("flip_checks", 0) + st["sym"].get("mirror_checks", 0) + \
        st["inc_asan"].get("evaluations", 0) + n_stream * len(NETS) * len(variants)
    c.distinct = core.count_distinct(hfiles)
    c.rule = ("per network (material-like x2, random small, random wide, extreme weights): (1) walks with make/unmake, take-back segments, null-move edits with evaluation inside, evaluator "
              "re-connection, position assignment into the connected position, unwinding below the evaluator's stack base, castling / capture-promotion / king moves; after ~45% of the steps "
              "Evaluate::evalPos() on warm shared tables (used before with other contempt values) and NNEvaluator::eval() are compared with a brand-new evaluator on a copy; "
              "(2) eval(P,c) == eval(colour-swap(P),-c) and == eval(left-right mirror(P),c) without castling rights, incl. the material classes of the hand-written endgame rules; "
              "(2b) evaluator hook inside real multi-threaded searches run under the cooperative scheduler: every k-th evaluation (k in {2,5,11,30}) is recomputed on a copy with a brand-new "
              "evaluator and the same contempt; (3) the same seeded stream of positions through every SIMD build: digests per 1000 positions must agree. distinct_nontrivial = distinct walks + distinct symmetry positions")
    c.extra.update(networks=NETS, simd_variants=variants, walks=st["inc"].get("walks", 0), null_edits=st["inc"].get("null_edits", 0), reconnects=st["inc"].get("reconnects", 0),
                   assignments=st["inc"].get("assignments", 0), clock_edits=st["inc"].get("clock_edits", 0), takebacks=st["inc"].get("takebacks", 0), castlings=st["inc"].get("castlings", 0),
                   capture_promotions=st["inc"].get("capture_promotions", 0), king_moves=st["inc"].get("king_moves", 0),
                   flip_checks=st["sym"].get("flip_checks", 0), mirror_checks=st["sym"].get("mirror_checks", 0),
                   endgame_rule_material_positions=st["sym"].get("endgame_rule_material_positions", 0), stream_blocks_compared=blocks_compared,
                   in_search_evaluations_observed=hook_evals, in_search_evaluations_recomputed=hook_checked, exhaustive=False)
    if hook_checked == 0:
        raise core.HarnessError("evaluator hook never fired")
    c.assumptions += ["synthetic networks; the repository's optimisation level (-O3) is used for all non-sanitizer variants (with GCC 12.2 -O2 the generic first-layer code is miscompiled by the SLP vectoriser; UBSan finds no undefined behaviour and -O3, the project's own setting, is unaffected - see DESIGN.md)",
                      "in-search evaluations are covered by the evaluator hook (C07 part 2) when the hook commit is present"]
    if blocks_compared == 0 and len(variants) > 1:
        raise core.HarnessError("no SIMD block compared")
