"""C06 - time limits are honoured. Engine in-process under the cooperative scheduler with a virtual clock driven by
the main search thread's nodes (h_cos); limits handed to the search and every stop test are observed through hooks."""
import concurrent.futures
import math
import re
import os
import random

from .. import core, build as B
from . import c10

NET = "zero_1"
FENS_W = ["rnbqkbnr/pppppppp/8/8/8/8/PPPPPPPP/RNBQKBNR w KQkq - 0 1", "r3k2r/p1ppqpb1/bn2pnp1/3PN3/1p2P3/2N2Q1p/PPPBBPPP/R3K2R w KQkq - 0 1",
          "8/2p5/3p4/KP5r/1R3p1k/8/4P1P1/8 w - - 0 1", "k7/8/K7/8/8/8/8/7R w - - 0 1", "7k/8/6KP/8/8/8/8/8 w - - 0 1"]
FENS_B = ["rnbqkbnr/pppppppp/8/8/4P3/8/PPPP1PPP/RNBQKBNR b KQkq - 0 1", "r4rk1/1pp1qppp/p1np1n2/2b1p1B1/2B1P1b1/P1NP1N2/1PP1QPPP/R4RK1 b - - 0 10",
          "7k/5Q2/8/6K1/8/8/8/8 b - - 0 1",       # single legal move
          "8/8/8/8/8/1k6/p7/K7 b - - 0 1"]
ROUND_MS = 2      # millisecond truncation in the engine's clock reads (tNow - tStart >= limit is evaluated in whole ms)


def logu(rnd, lo, hi):
    return int(round(math.exp(rnd.uniform(math.log(lo), math.log(hi)))))


def gen_script(rnd):
    threads = rnd.choice([1, 1, 2, 3, 4])
    buffer_time = rnd.choice([1000, 1000, 1, 10, 100, 5000, 10000])
    ponder_opt = rnd.choice(["false", "false", "true"])
    maxnps = rnd.choice([0, 0, 0, 0, 0, 0, 20000, 20000, 100000, 100000, 1, 5, 20])     # small values: every stop test sleeps for a long time
    lines = ["now 0 | uci", "now 0 | setoption name Threads value %d" % threads, "now 0 | setoption name BufferTime value %d" % buffer_time,
             "now 0 | setoption name Ponder value %s" % ponder_opt]
    if maxnps:
        lines.append("now 0 | setoption name MaxNPS value %d" % maxnps)
    lines.append("now 0 | isready")
    searches = []
    nbest = 0
    for s in range(rnd.randint(2, 5)):
        white = rnd.random() < .5
        fen = rnd.choice(FENS_W if white else FENS_B)
        lines.append("best %d | position fen %s" % (nbest, fen))
        kind = rnd.choice(["movetime", "clock", "clock", "clock", "ponderhit", "stop"])
        sd = dict(kind=kind, white=white, buffer=buffer_time, maxnps=maxnps)
        edge = [1, 2, 9, 10, buffer_time - 1, buffer_time, buffer_time + 1, 2 * buffer_time]
        def clockval():
            return max(1, rnd.choice(edge)) if rnd.random() < .3 else logu(rnd, 1, 3000000 if rnd.random() < .1 else 20000)
        if kind == "movetime":
            mt = logu(rnd, 1, 3000)
            sd["budget"] = mt
            if rnd.random() < .3:
                # a fixed move time given together with clocks: the move time is the budget
                lines.append("now 0 | go movetime %d wtime %d btime %d winc %d binc %d" % (mt, logu(rnd, 1, 600000), logu(rnd, 1, 600000), rnd.choice([0, 1000]), rnd.choice([0, 1000])))
            else:
                lines.append("now 0 | go movetime %d" % mt)
        else:
            wt, bt = clockval(), clockval()
            inc = rnd.choice([0, 0, 10, 100, 1000, 100000])
            mtg = rnd.choice([0, 0, 1, 2, 5, 40, 100])
            clock = wt if white else bt
            sd["budget"] = max(1, clock - min(buffer_time, clock * 9 // 10))
            tc = "wtime %d btime %d winc %d binc %d" % (wt, bt, inc if rnd.random() < .5 else 0, inc)
            if mtg:
                tc += " movestogo %d" % mtg
            if kind == "clock":
                lines.append("now 0 | go " + tc)
            elif kind == "ponderhit":
                lines.append("now 0 | go ponder " + tc)
                lines.append("ms %d | ponderhit" % logu(rnd, 1, 2000))
            else:
                lines.append("now 0 | go " + tc)
                lines.append("ms %d | stop" % logu(rnd, 1, 500))
        nbest += 1
        searches.append(sd)
    lines.append("best %d | quit" % nbest)
    return lines, searches, threads, maxnps


def poll_points(seg, idx_best, sd, t_go):
    """virtual times at which the main search thread looked at its limits during one search (stop tests, and the end of
    throttle sleeps inside a stop test)"""
    polls = []
    prev = None
    # the node count the engine reports at the end bounds the count at any earlier throttle sleep: a sleep is justified by the NPS cap
    # only while (time since go) * MaxNPS <= nodes * 1000
    nfinal = 0
    for r in seg[:idx_best]:
        m = re.match(r"info nodes (\d+) ", r[4]) if r[0] == "OUT" else None
        if m:
            nfinal = int(m.group(1))
    for r in seg[:idx_best]:
        if r[0] == "POLL":
            polls.append(r[2])
        elif r[0] == "WAKE" and prev in ("POLL", "WAKE") and sd.get("maxnps") and (r[2] - t_go) / 1000.0 <= nfinal * 1000.0 / sd["maxnps"] + 1:
            # a MaxNPS throttle sleep inside the stop test: the test ends when the thread wakes up, so the sleep is part of the
            # interval between this stop test and the next time the search can notice the deadline
            polls.append(r[2])
        if r[0] in ("POLL", "WAKE"):
            prev = r[0]
    return polls


def interval(pts):
    """largest gap between consecutive observation points, or None when fewer than two stop tests make an interval observable"""
    return max(b - a for a, b in zip(pts, pts[1:])) if len(pts) >= 3 else None


def judge(recs, result, searches):
    v = []
    if result is None or not result.startswith("RESULT ok"):
        return [("no-clean-finish", (result or "no RESULT")[:300])], dict()
    # split the trace per go
    gos = [i for i, r in enumerate(recs) if r[0] == "IN" and r[4].startswith("go")]
    stats = dict(limits=0, maxgap_us=0, searches=0, polls=0)
    known = []
    for k, gi in enumerate(gos):
        if k >= len(searches):
            break
        end = gos[k + 1] if k + 1 < len(gos) else len(recs)
        seg = recs[gi:end]
        best = next((r for r in seg if r[0] == "OUT" and r[4].startswith("bestmove")), None)
        if best is not None:
            g = interval([recs[gi][2]] + poll_points(seg, seg.index(best), searches[k], recs[gi][2]))
            if g is not None:
                known.append(g)
    G_run = max(known) if known else 10000
    for k, gi in enumerate(gos):
        if k >= len(searches):
            break
        sd = searches[k]
        end = gos[k + 1] if k + 1 < len(gos) else len(recs)
        seg = recs[gi:end]
        t_go = recs[gi][2]
        best = next((r for r in seg if r[0] == "OUT" and r[4].startswith("bestmove")), None)
        if best is None:
            v.append(("no-bestmove", "search %d '%s'" % (k, recs[gi][4])))
            continue
        t_best = best[2]
        idx_best = seg.index(best)
        polls = poll_points(seg, idx_best, sd, t_go)
        # one polling interval = the largest gap between consecutive stop tests of the main search thread (incl. go -> first test);
        # a search without any stop test is shorter than one interval of 1000 nodes (10 ms of virtual time)
        # A search that ended before its second stop test cannot show its own interval: the interval of the process (same
        # Threads/MaxNPS configuration for every search of a script) is used, 1000 nodes = 10 ms of virtual time if none was observable.
        pts = [t_go] + polls
        G = max(interval(pts) or 0, G_run)
        if sd["kind"] == "ponderhit":
            G += 10000      # the engine's ponder wait loop sleeps 10 ms per iteration
        stats["maxgap_us"] = max(stats["maxgap_us"], G); stats["polls"] += len(polls); stats["searches"] += 1
        B_us = sd["budget"] * 1000
        hard = None
        for r in seg[:idx_best]:
            if r[0] != "LIM":
                continue
            mn, mx, early, tstart = [int(x) for x in r[4].split()]
            if mx <= 0 and mn <= 0:
                continue        # (-1,-1): ponder/infinite start; (0,0): stop request
            stats["limits"] += 1
            hard = mx
            if not (1 <= mn <= mx <= sd["budget"]):
                v.append(("limits-out-of-range", "search %d '%s': soft %d hard %d budget %d (BufferTime %d)" % (k, recs[gi][4], mn, mx, sd["budget"], sd["buffer"])))
        slack = G + ROUND_MS * 1000
        stop = next((r for r in seg[:idx_best] if r[0] == "IN" and r[4] == "stop"), None)
        hit = next((r for r in seg[:idx_best] if r[0] == "IN" and r[4] == "ponderhit"), None)
        if sd["kind"] in ("movetime", "clock"):
            if t_best - t_go > B_us + slack:
                v.append(("bestmove-after-deadline", "search %d '%s': bestmove %.3f ms after go, budget %d ms, largest polling gap %.3f ms" % (k, recs[gi][4], (t_best - t_go) / 1000.0, sd["budget"], G / 1000.0)))
        elif sd["kind"] == "stop" and stop is not None:
            if t_best - stop[2] > slack:
                v.append(("bestmove-late-after-stop", "search %d '%s': bestmove %.3f ms after stop, largest polling gap %.3f ms" % (k, recs[gi][4], (t_best - stop[2]) / 1000.0, G / 1000.0)))
            if t_best - t_go > B_us + slack and stop[2] - t_go > B_us:
                v.append(("bestmove-after-deadline", "search %d '%s' (stop came after the deadline): %.3f ms, budget %d" % (k, recs[gi][4], (t_best - t_go) / 1000.0, sd["budget"])))
        elif sd["kind"] == "ponderhit" and hit is not None and hard is not None:
            limit = max(hit[2], t_go + hard * 1000)
            if t_best > limit + slack:
                v.append(("bestmove-late-after-ponderhit", "search %d '%s': ponderhit at +%.3f ms, hard limit %d ms, bestmove at +%.3f ms, largest polling gap %.3f ms" %
                          (k, recs[gi][4], (hit[2] - t_go) / 1000.0, hard, (t_best - t_go) / 1000.0, G / 1000.0)))
            if t_best < hit[2]:
                v.append(("bestmove-before-ponderhit", "search %d '%s'" % (k, recs[gi][4])))
    return v, stats


def one(args):
    idx, seed = args
    rnd = random.Random(seed)
    lines, searches, threads, maxnps = gen_script(rnd)
    sf = os.path.join(core.TMP, "c06_%d_%d.script" % (os.getpid(), idx))
    with open(sf, "w") as f:
        f.write("\n".join(lines) + "\n")
    a = [B.exe("rel", "h_cos"), sf, "seed=%d" % seed, "strategy=" + rnd.choice(["random", "random", "pct"]), "pct=2", "nsPerNode=10000"]
    r = core.run_proc(a, env={"VERIF_NET": core.net_path(NET)}, timeout=600)
    os.unlink(sf)
    if r.timeout:
        return dict(viol=[], incon="watchdog " + " ".join(a[2:]), stats={}, lines=lines, searches=searches, args=a[2:])
    recs, result = c10.parse(r.stdout)
    v, stats = judge(recs, result, searches)
    return dict(viol=v, incon=None, stats=stats, lines=lines, searches=searches, args=a[2:], threads=threads, maxnps=maxnps)


def run(c):
    quick = c.tier == "quick"
    n = int((130 if quick else 2600) * c.scale)      # scripts of 2..5 timed searches each
    B.build([("rel", "h_cos")])
    core.ensure_nets([NET])
    tot = dict(limits=0, searches=0, polls=0)
    maxgap = 0
    cfg = set()
    kinds = {}
    with concurrent.futures.ThreadPoolExecutor(max_workers=core.NCPU) as ex:
        for r in ex.map(one, [(i, c.seed * 1000000 + 500000 + i) for i in range(n)]):
            if r["incon"]:
                c.inconclusive.append(r["incon"]); continue
            for kind, det in r["viol"]:
                c.violation("virtual-clock-limits", kind, "%s | %s | script: %s" % (det, " ".join(r["args"]), " ;; ".join(r["lines"])))
            for k in tot:
                tot[k] += r["stats"].get(k, 0)
            maxgap = max(maxgap, r["stats"].get("maxgap_us", 0))
            for l in r["lines"]:
                if "| go" in l:
                    cfg.add((l.split("|", 1)[1].strip(), r.get("threads"), r.get("maxnps")))
            for sd in r["searches"]:
                kinds[sd["kind"]] = kinds.get(sd["kind"], 0) + 1
            if len(c.samples) < 3:
                c.sample(" ;; ".join(r["lines"])[:600])
    c.evaluations = tot["searches"]
    c.distinct = len(cfg)
    c.rule = ("one case = one timed search inside a scheduled in-process session (2..5 per process): go movetime 1..3000 / wtime,btime log-uniform 1..2e4 (10%: ..3e6) plus edge values "
              "{1,2,9,10,BufferTime-1,BufferTime,BufferTime+1,2*BufferTime}, increments 0..1e5, movestogo {0,1,2,5,40,100}, either side to move, Ponder option, BufferTime {1,10,100,1000,5000,10000}, "
              "MaxNPS, Threads 1..4, roots with one and many legal moves, go ponder + ponderhit and stop at log-uniform virtual times. Virtual clock: 100 nodes of the main search thread per ms. "
              "Checked: every limit pair handed to the search satisfies 1 <= soft <= hard <= budget (movetime, or clock - min(BufferTime, 9*clock/10), at least 1); bestmove no later than budget + G "
              "after go, G = the largest virtual gap between consecutive stop tests of the main search thread observed in that search (+2 ms clock truncation); after stop within G; after "
              "ponderhit no later than max(ponderhit, go + hard) + G. distinct_nontrivial = distinct (go command, Threads, MaxNPS)")
    c.extra.update(limit_notifications_checked=tot["limits"], stop_tests_observed=tot["polls"], largest_polling_gap_ms=maxgap / 1000.0, search_kinds=kinds, scripts=n, exhaustive=False)
    c.extra["inconclusive_allowed"] = max(1, n // 50)
    c.assumptions += ["time is the virtual clock installed through the hook in currentTimeMillis()/currentTime() and the interposed clock_gettime; it advances with the main search thread's nodes and with sleeps",
                      "'one polling interval' is measured per search, not assumed"]
    if tot["limits"] == 0:
        raise core.HarnessError("no limit notification observed")
