"""C02 - position state survives any make/unmake history (h_rules c02; asan+ubsan is primary)."""
import os
from .. import core, build as B


def run(c):
    quick = c.tier == "quick"
    n_asan = int((6000 if quick else 200000) * c.scale)
    n_rel = int((20000 if quick else 1000000) * c.scale)
    B.build([("rel", "h_rules"), ("asan", "h_rules")])
    shards = core.NCPU
    cmds, hfiles = [], []
    for i in range(shards):
        hf = os.path.join(core.TMP, "c02_%d_%d.h64" % (os.getpid(), i))
        hfiles.append(hf)
        cmds.append([B.exe("rel", "h_rules"), "c02", str(c.seed * 1000 + i), str(n_rel // shards), hf])
    for i in range(shards):
        hf = os.path.join(core.TMP, "c02a_%d_%d.h64" % (os.getpid(), i))
        hfiles.append(hf)
        cmds.append([B.exe("asan", "h_rules"), "c02", str(c.seed * 1000 + 500 + i), str(n_asan // shards), hf])
    res = core.run_many(cmds, timeout=3600)
    c.absorb("state-recompute", res[:shards])
    c.absorb("state-recompute-asan-ubsan", res[shards:])
    st = core.merge_stats(res)
    c.evaluations = st.get("states", 0)
    c.distinct = core.count_distinct(hfiles)
    c.rule = ("random walks <=300 plies (refchess chooses the moves; styles uniform/tactical/promotion-storm) from the start "
              "position, tricky positions, storm starts and synthetic placements, with take-back segments, null-move style "
              "edits as in Search::negaScout, makeMoveB/unMakeMoveB and makeSEEMove/unMakeSEEMove pairs; after every step all "
              "incremental attributes are recomputed from the 64 squares and compared, lock-step with refchess; FEN and "
              "serialize round trips on 25% of the states; evaluations = states checked; distinct_nontrivial = distinct walks "
              "(hash of start FEN + move list), every walk contains make and unmake steps")
    c.extra.update(walks=st.get("walks", 0), moves_made=st.get("moves_made", 0), takebacks=st.get("takebacks", 0),
                   null_edits=st.get("null_edits", 0), b_see_pairs=st.get("b_see_pairs", 0),
                   fen_roundtrips=st.get("fen_roundtrips", 0), serialize_roundtrips=st.get("serialize_roundtrips", 0),
                   rule_equal_pairs_checked=st.get("rule_equal_pairs", 0),
                   max_queens_one_side=st.get("max_queens_one_side", 0), walks_high_halfmove_clock=st.get("walks_high_halfmove_clock", 0), max_halfmove_clock=st.get("max_halfmove_clock", 0),
                   walks_with_6plus_queens=st.get("walks_with_6plus_queens", 0),
                   walks_with_6plus_black_queens=st.get("walks_with_6plus_black_queens", 0),
                   asan_states=sum(r.stats.get("states", 0) for r in res[shards:]), exhaustive=False)
    c.assumptions += ["refchess correct (perft self-test each process)",
                      "material signature expected value = 64-bit sum of the MatId constants truncated to 32 bits"]
    if st.get("walks_with_6plus_queens", 0) == 0 or st.get("takebacks", 0) == 0:
        raise core.HarnessError("promotion storms / take-backs never produced")
