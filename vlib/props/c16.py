"""C16 - reachable positions are never declared illegal; proof games are valid.

Positions are the ends of random legal games (refchess plays them from the initial position, every position
of a game keeps >= 26 men). Observation points:
  * `texelutil proofgame -f` (the real program, first filter iteration: static rules, distance bound, last-move
    analysis, proof kernel, extended kernel) on every generated FEN, every output line parsed;
  * `texelutil proofgame -f -o` (iterated mode: path + proof game search) on a sample, with a wall-clock cap;
  * h_pg filter: the same first iteration in-process (ProofGameFilter::filterFens), rel and asan+ubsan, with the
    tool's log captured per position (which stages ran);
  * h_pg bound: ProofGame::distLowerBound for every prefix of every game against the game's own end, plain and
    after the tool's last-move analysis;
  * h_pg replay: every `legal: proof:` line replayed by refchess from the initial position."""
import glob
import os
import re
import threading

from .. import core, build as B

NET = "material_1"


def _split_line(line):
    t = line.split()
    if len(t) < 7:
        return None, None, t
    return " ".join(t[:6]), t[6], t[7:]


def _tally_log(text, st, pfx):
    def add(k, v=1):
        st[pfx + k] = st.get(pfx + k, 0) + v
    add("lastmove_forced_moves", text.count("Forced last move:"))
    add("lastmove_assumed_irreversible", text.count("Only irreversible moves possible"))
    add("lastmove_candidates_checked", text.count("Checking move:"))
    add("lastmove_rejected_by_recursive_search", text.count("Move rejected by recursive proof game search"))
    add("path_searches", text.count("Finding path for"))
    add("path_solutions", text.count("Path solution:"))
    add("proofgame_searches", text.count("Finding proof game for"))
    add("proofgame_solutions", text.count("Solution: -w"))
    for m in re.finditer(r"found:(\d) nodes:(\d+) csp:(\d+) cspNodes:(\d+)", text):
        add("kernel_searches")
        add("kernel_search_result_" + ("none", "kernel_only", "ext_kernel")[min(2, int(m.group(1)))])
        add("kernel_search_nodes", int(m.group(2)))
        add("ext_kernel_csp_solved", int(m.group(3)))
        add("ext_kernel_csp_nodes", int(m.group(4)))


def _classify(c, check, lines, moves_of, st, pfx, proofs):
    """Parse tool output lines; 'illegal' is a violation; collect proofs; count verdict kinds."""
    seen = {}
    for line in lines:
        fen, verdict, rest = _split_line(line)
        if fen is None:
            continue
        seen[fen] = line
        key = pfx + "verdict_"
        if verdict == "illegal:":
            st[key + "illegal"] = st.get(key + "illegal", 0) + 1
            c.violation(check, "declared-illegal", "goal %s | %s | moves %s" % (fen, " ".join([verdict] + rest), moves_of.get(fen, "?")),
                        detail=line)
        elif verdict == "legal:":
            st[key + "legal_with_proof"] = st.get(key + "legal_with_proof", 0) + 1
            if rest[:1] != ["proof:"]:
                c.violation(check, "legal-without-proof", "goal %s | %s" % (fen, " ".join(rest)[:300]))
            else:
                proofs.append("%s | %s" % (fen, " ".join(rest[1:])))
        elif verdict == "unknown:":
            toks = set(x for x in rest if x.endswith(":"))
            if "fail:" in toks:
                st[key + "unknown_fail"] = st.get(key + "unknown_fail", 0) + 1
                info = line.split(" info: ", 1)[1] if " info: " in line else "none"
                info = re.split(r"[,]| fen1=", info)[0].strip()[:60]
                d = st.setdefault(pfx + "unknown_fail_info", {})
                d[info] = d.get(info, 0) + 1
            elif "path:" in toks:
                st[key + "unknown_path_found"] = st.get(key + "unknown_path_found", 0) + 1
            elif "extKernel:" in toks:
                st[key + "unknown_ext_kernel_found"] = st.get(key + "unknown_ext_kernel_found", 0) + 1
            else:
                st[key + "unknown_other"] = st.get(key + "unknown_other", 0) + 1
        else:
            c.violation(check, "no-verdict", "goal %s | output %s" % (fen, line[:300]))
    return seen


def _tool_errors(c, check, r, what):
    if r.timeout:
        return
    errs = [l for l in r.stderr.splitlines() if l.startswith("Error:")]
    for rep in r.reports:
        c.violation(check, "sanitizer", core.report_key(rep), detail=rep["raw"], replay_cmd=" ".join(r.cmd))
    if errs:
        c.violation(check, "tool-error", "%s: %s" % (what, errs[0][:200]), detail="\n".join(errs[:20]), replay_cmd=" ".join(r.cmd))
    elif r.rc != 0 and not r.reports:
        c.violation(check, "crash", "%s rc=%s" % (what, r.rc), detail=r.stderr[-3000:], replay_cmd=" ".join(r.cmd))


def run(c):
    quick = c.tier == "quick"
    S = c.scale
    shards = core.NCPU
    npos = max(shards, int((400 if quick else 4800) * S))           # through the real program and in-process
    nextra = int((3200 if quick else 24000) * S)                      # further in-process positions (rel)
    nasan = int((160 if quick else 3000) * S)                         # in-process, asan+ubsan
    ngames = int((16000 if quick else 240000) * S)                    # bound: games (rel)
    ngames_asan = int((600 if quick else 20000) * S)
    nsample = max(4, int(npos * (0.15 if quick else 0.05)))           # iterated mode sample
    it_timeout = 120 if quick else 1500
    targets = [("rel", "h_pg"), ("asan", "h_pg"), ("rel", "texelutil")]
    if not quick:
        targets.append(("asan", "texelutil"))
    B.build(targets)
    core.ensure_nets([NET])
    H, HA, TU = B.exe("rel", "h_pg"), B.exe("asan", "h_pg"), B.exe("rel", "texelutil")
    tag = os.path.join(core.TMP, "c16_%d_" % os.getpid())
    tmpfiles = []

    def tmp(name):
        p = tag + name
        tmpfiles.append(p)
        return p

    # -- the positions for the real program ---------------------------------------------------
    per = npos // shards
    gseeds = [c.seed * 1000 + i for i in range(shards)]
    gres = core.run_many([[H, "genfens", str(s), str(per)] for s in gseeds], timeout=600)
    c.absorb("generator", gres)
    fens, moves_of, kind_of = [], {}, {}
    for r in gres:
        for l in r.stdout.splitlines():
            if l.startswith("FEN "):
                fen, _, rest = l[4:].partition(" | ")
                mv, _, kind = rest.partition(" | ")
                fens.append(fen)
                moves_of[fen] = mv
                kind_of[fen] = kind
    if len(fens) != per * shards:
        raise core.HarnessError("generator produced %d of %d positions" % (len(fens), per * shards))
    fenfile = tmp("fens.txt")
    with open(fenfile, "w") as f:
        f.write("".join(x + "\n" for x in fens))
    sample = fens[5::max(1, len(fens) // nsample)][:nsample]
    # the rare shapes always go through the iterated mode as well: short games ending in an e.p. capture (two forced last moves, the
    # search finds a proof game at once) and cross-checks (last-move analysis of quiet moves made while in check)
    sample += [f for f in fens if kind_of.get(f, "") in ("ep-capture-short-game", "ep-capture-check-short-game", "cross-check", "cross-check-32-men", "ep-capture") and f not in sample]
    samplefile = tmp("sample.txt")
    with open(samplefile, "w") as f:
        f.write("".join(x + "\n" for x in sample))

    # -- the real program, in the background ------------------------------------------------
    bg = {}

    def run_tool(name, cmd, infile, timeout):
        with open(infile) as f:
            data = f.read()
        bg[name] = core.run_proc(cmd, stdin_data=data, timeout=timeout, cwd=core.TMP)

    itbase = tag + "it_"
    jobs_f = max(2, core.NCPU // 2)
    th = [threading.Thread(target=run_tool, args=("filter", [TU, "-j", str(jobs_f), "proofgame", "-f"], fenfile, 3600 if quick else 6 * 3600)),
          threading.Thread(target=run_tool, args=("iter", [TU, "-j", str(core.NCPU), "proofgame", "-f", "-o", itbase], samplefile, it_timeout))]
    if not quick:
        asanfile = tmp("asan.txt")
        with open(asanfile, "w") as f:
            f.write("".join(x + "\n" for x in fens[::max(1, len(fens) // 300)]))
        th.append(threading.Thread(target=run_tool, args=("asan", [B.exe("asan", "texelutil"), "-j", "4", "proofgame", "-f"], asanfile, 3 * 3600)))
    for t in th:
        t.start()

    # -- harness shards -----------------------------------------------------------------------
    cmds, hfiles, groups = [], [], {}

    def add(group, exe, mode, seed, n):
        hf = tmp("%s_%d.h64" % (group, len(cmds)))
        hfiles.append(hf)
        groups.setdefault(group, []).append(len(cmds))
        cmds.append([exe, mode, str(seed), str(n), hf])

    for s in gseeds:
        add("filter_same", H, "filter", s, per)
    for i in range(shards):
        add("filter_extra", H, "filter", c.seed * 1000 + 100 + i, max(1, nextra // shards))
    na = max(1, shards // 4)
    for i in range(na):
        add("filter_asan", HA, "filter", c.seed * 1000 + 200 + i, max(1, nasan // na))
    for i in range(shards):
        add("bound", H, "bound", c.seed * 1000 + 300 + i, max(1, ngames // shards))
    for i in range(na):
        add("bound_asan", HA, "bound", c.seed * 1000 + 400 + i, max(1, ngames_asan // na))
    npath = int((800 if quick else 9600) * S)
    for i in range(shards):
        add("pathstage", H, "pathstage", c.seed * 1000 + 500 + i, max(1, npath // shards))
    import time
    t_h = time.time()
    res = core.run_many(cmds, timeout=3600 if quick else 12 * 3600, jobs=max(2, core.NCPU // 2))
    t_h = time.time() - t_h
    G = {g: [res[i] for i in idx] for g, idx in groups.items()}
    c.absorb("inprocess-filter", G["filter_same"] + G["filter_extra"])
    c.absorb("inprocess-filter-asan-ubsan", G["filter_asan"])
    c.absorb("distance-bound", G["bound"])
    c.absorb("distance-bound-asan-ubsan", G["bound_asan"])
    c.absorb("proof-game-stage-on-path-lines", G["pathstage"])
    pst = core.merge_stats(G["pathstage"])
    fst = core.merge_stats(G["filter_same"] + G["filter_extra"] + G["filter_asan"])
    bst = core.merge_stats(G["bound"] + G["bound_asan"])
    inproc = {}
    for r in G["filter_same"]:
        for l in r.stdout.splitlines():
            if l.startswith("LINE "):
                fen, _, _ = _split_line(l[5:])
                inproc[fen] = l[5:].strip()

    for t in th:
        t.join()

    # -- real program: first iteration ------------------------------------------------------
    proofs = []
    tst = {}
    rf = bg["filter"]
    _tool_errors(c, "texelutil-filter", rf, "texelutil proofgame -f")
    if rf.timeout:
        c.inconclusive.append("timeout: texelutil proofgame -f on %d positions" % len(fens))
    out_lines = [l for l in rf.stdout.splitlines() if l.strip()]
    seen = _classify(c, "texelutil-filter", out_lines, moves_of, tst, "", proofs)
    _tally_log(rf.stderr, tst, "")
    if not rf.timeout:
        missing = [f for f in fens if f not in seen]
        if missing:
            c.violation("texelutil-filter", "no-verdict", "goal %s | no output line | moves %s" % (missing[0], moves_of.get(missing[0], "?")),
                        detail="%d input positions without output line" % len(missing))
        diff = [(f, seen[f], inproc.get(f)) for f in fens if f in seen and inproc.get(f) is not None and " ".join(seen[f].split()) != " ".join(inproc[f].split())]
        if diff:
            raise core.HarnessError("in-process filter and texelutil disagree on %d positions, e.g.\n%s\n%s" % (len(diff), diff[0][1][:400], diff[0][2][:400]))
    if not quick and "asan" in bg:
        ra = bg["asan"]
        _tool_errors(c, "texelutil-filter-asan-ubsan", ra, "asan texelutil proofgame -f")
        ast = {}
        _classify(c, "texelutil-filter-asan-ubsan", [l for l in ra.stdout.splitlines() if l.strip()], moves_of, ast, "", [])
        c.extra["texelutil_asan_first_iteration"] = dict(ast, timeout=ra.timeout)
        if ra.timeout:
            c.inconclusive.append("timeout: asan texelutil proofgame -f")

    # -- real program: iterated mode ----------------------------------------------------------
    ri = bg["iter"]
    _tool_errors(c, "texelutil-iterated", ri, "texelutil proofgame -f -o")
    ist = {}
    itfiles = sorted(glob.glob(itbase + "[0-9][0-9]*"))
    tmpfiles.extend(itfiles)
    best = {}
    for n, path in enumerate(itfiles):
        with open(path, errors="replace") as f:
            data = f.read()
        ls = data.split("\n")
        if not data.endswith("\n"):
            ls = ls[:-1]        # the process was killed while writing this line
        for l in ls:
            fen, verdict, _ = _split_line(l)
            if fen is not None:
                best[fen] = l   # later iterations supersede earlier ones
    iproofs = []
    _classify(c, "texelutil-iterated", list(best.values()), moves_of, ist, "", iproofs)
    _tally_log(ri.stderr, ist, "")
    unresolved = [f for f in sample if _split_line(best.get(f, ""))[1] not in ("legal:", "illegal:") and " fail:" not in best.get(f, "")]
    ist["iterations_written"] = len(itfiles)
    ist["sample_positions"] = len(sample)
    ist["stopped_by_wall_clock_cap"] = bool(ri.timeout)
    ist["positions_unresolved_at_cap"] = len(unresolved)
    for f in unresolved[:10]:
        c.inconclusive.append("iterated search cap (%ds) reached before a verdict: %s" % (it_timeout, f))
    proofs_first = len(proofs)
    proofs += iproofs

    # -- replay of every proof game -------------------------------------------------------------
    rr = core.run_proc([H, "replay", tmp("replay.h64")], stdin_data="".join(p + "\n" for p in proofs), timeout=3600)
    c.absorb("proof-replay", [rr])
    rst = rr.stats
    if rst.get("proofs_replayed", 0) != len(proofs):
        raise core.HarnessError("replayer handled %d of %d proof games" % (rst.get("proofs_replayed", 0), len(proofs)))
    for p in proofs[:1] + iproofs[:1]:
        c.sample("proof game replayed: " + p[:300])

    # -- evidence -------------------------------------------------------------------------------
    prefixes = bst.get("prefixes_plain", 0) + bst.get("prefixes_lastmove", 0)
    c.evaluations = prefixes + fst.get("positions", 0) + len(out_lines) + len(best) + len(proofs)
    c.distinct = core.count_distinct(hfiles + [tag + "replay.h64"])
    gen = {}
    for r in gres:
        for k, v in r.stats.items():
            if k.startswith("gen_"):
                gen[k[4:]] = gen.get(k[4:], 0) + v
    c.rule = ("positions = ends of random legal games from the initial position played by refchess (styles quiet/tactical/pawn-rush/uniform, 1..150 plies, 8% of 1..3 plies; "
              "captures are refused once 26 men are left, so every position of a game has >= 26 men; the last move is steered to create an e.p. right, check, capture, "
              "promotion, castling or e.p. capture in 68% of the games); FENs normalised by toFEN(readFEN(.)) (checked: only an uncapturable e.p. square may change). "
              "Verdicts: every output line of `texelutil proofgame -f` (first iteration) and of the last `-o` iteration files must not be `illegal:`; the same first iteration "
              "in-process (rel, asan+ubsan) must give the identical line. Proofs: every `legal: proof:` move list is parsed by an independent SAN reader on refchess and replayed from "
              "the initial position; every move must be the unique legal match and the end must equal the goal in board, side to move, castling rights and e.p. state. "
              "Bound: for each game P_0..P_n, ProofGame(goal=P_n).distLowerBound(P_i) <= n-i and finite for all i (plain); with last-move analysis on, the k forced take-backs must "
              "lead to the real P_(n-k) and bound(P_i)+k <= n-i. evaluations = prefix bounds + positions filtered (in-process + program) + proof games replayed; "
              "distinct_nontrivial = distinct goal positions / games / proof games (64-bit hashes)")
    c.extra.update(
        generator_final_positions_for_program=gen,
        program_first_iteration=dict(tst, positions=len(fens), output_lines=len(out_lines), wall_s=round(rf.wall, 1)),
        program_iterated_mode=dict(ist, wall_s=round(ri.wall, 1), proofs=len(iproofs)),
        inprocess_first_iteration={k[2:]: v for k, v in fst.items() if k.startswith("f_")},
        harness_shards_wall_s=round(t_h, 1),
        inprocess_positions=fst.get("positions", 0), inprocess_positions_asan=sum(r.stats.get("positions", 0) for r in G["filter_asan"]),
        inprocess_vs_program_lines_compared=len([f for f in fens if f in seen and f in inproc]),
        inprocess_generator={k[4:]: v for k, v in fst.items() if k.startswith("gen_")},
        bound=dict(games=bst.get("games", 0), prefixes_plain=bst.get("prefixes_plain", 0), prefixes_after_lastmove_analysis=bst.get("prefixes_lastmove", 0),
                   bound_equals_remaining=bst.get("bound_tight", 0), bound_positive=bst.get("bound_positive", 0), bound_sum=bst.get("bound_sum", 0),
                   remaining_sum=bst.get("remaining_sum", 0), max_bound=bst.get("max_bound", 0),
                   lastmove_analyses=bst.get("lastmove_analyses", 0), analyses_with_forced_moves=bst.get("lastmove_analyses_with_forced_moves", 0),
                   forced_moves_taken_back=bst.get("forced_moves_taken_back", 0), bound_skipped_ep_differs=bst.get("lastmove_bound_skipped_ep_differs", 0),
                   violations_by_kind={k[5:]: v for k, v in bst.items() if k.startswith("viol_")}, directed_games=bst.get("games_directed", 0),
                   lastmove_stage={k[2:]: v for k, v in bst.items() if k.startswith("b_")}, games_asan=sum(r.stats.get("games", 0) for r in G["bound_asan"]),
                   generator={k[4:]: v for k, v in bst.items() if k.startswith("gen_")}),
        proofs_replayed=rst.get("proofs_replayed", 0), proofs_from_first_iteration=proofs_first, proofs_from_iterated_mode=len(iproofs),
        proof_plies_total=rst.get("proof_plies", 0), longest_proof_plies=rst.get("max_proof_plies", 0),
        path_stage_lines=pst.get("pathstage_lines", 0), path_stage_proofs_replayed=pst.get("pathstage_proofs", 0), path_stage_unresolved=pst.get("pathstage_unresolved", 0),
        exhaustive=False, inconclusive_allowed=len(sample) + 2)
    c.assumptions += ["refchess correct (perft self-test each process); the SAN reader of the replayer is validated by accept/reject self tests each process",
                      "positions with fewer than 26 men are not explored (kernel search space)",
                      "'unknown ... fail:' lines (the tool gives up) are counted, not judged: the property only forbids 'illegal'",
                      "iterated mode: positions without a verdict when the wall-clock cap fires are inconclusive"]
    for p in tmpfiles:
        try:
            os.unlink(p)
        except OSError:
            pass

    # "held" must not mean "never ran"
    need = [("kernel searches (program)", tst.get("kernel_searches", 0)), ("extended-kernel CSPs (program)", tst.get("ext_kernel_csp_solved", 0)),
            ("last-move candidates analysed (program)", tst.get("lastmove_candidates_checked", 0)),
            ("kernel searches (in-process)", fst.get("f_kernel_searches", 0)), ("proof games replayed", rst.get("proofs_replayed", 0)),
            ("proof games from the iterated search", len(iproofs)), ("path searches", ist.get("path_searches", 0)),
            ("positive bounds", bst.get("bound_positive", 0)), ("prefix bounds", prefixes)]
    if S >= 1:
        need += [("forced last moves", tst.get("lastmove_forced_moves", 0) + bst.get("forced_moves_taken_back", 0)),
                 ("final positions with e.p. right", gen.get("final_ep_square_capturable", 0)), ("games with promotion", gen.get("games_with_promotion", 0)),
                 ("final positions with partial castling rights", gen.get("final_castle_rights_partial", 0)),
                 ("final positions with all castling rights", gen.get("final_castle_rights_all", 0))]
    miss = [n for n, v in need if not v]
    if miss:
        raise core.HarnessError("stages never exercised: " + ", ".join(miss))
