"""C01 - generated legal moves are exactly the legal moves of chess (h_rules c01 vs refchess)."""
import os
from .. import core, build as B

TEMPLATES = ["sparse", "dense", "pin", "doublecheck", "eppin", "castle", "promo", "discovered"]
FEATURES = ["f_incheck", "f_doublecheck", "f_pinned", "f_ep_legal", "f_ep_pinned_illegal",
            "f_castle_avail", "f_castle_blocked_by_attack", "f_promo_avail"]


def run(c):
    quick = c.tier == "quick"
    n_rel = int((300000 if quick else 20000000) * c.scale)
    n_asan = int((30000 if quick else 1500000) * c.scale)
    B.build([("rel", "h_rules"), ("asan", "h_rules")])
    shards = core.NCPU
    cmds, hfiles = [], []
    for i in range(shards):
        hf = os.path.join(core.TMP, "c01_%d_%d.h64" % (os.getpid(), i))
        hfiles.append(hf)
        cmds.append([B.exe("rel", "h_rules"), "c01", str(c.seed * 1000 + i), str(n_rel // shards), hf])
    acmds = [[B.exe("asan", "h_rules"), "c01", str(c.seed * 1000 + 500 + i), str(n_asan // shards)]
             for i in range(shards)]
    res = core.run_many(cmds + acmds, timeout=3600)
    c.absorb("movegen-vs-refchess", res[:shards])
    c.absorb("movegen-asan", res[shards:])
    st = core.merge_stats(res)
    c.evaluations = st.get("positions", 0)
    c.distinct = core.count_distinct(hfiles)
    c.rule = ("positions from seeded random legal games (start position, ~45 tricky positions, promotion-storm "
              "starts, synthetic starts) and synthetic placements from 8 templates, each accepted by TextIO::readFEN, "
              "<=16 men/side, promotion-consistent; every check of DESIGN C01 (legal set, isLegal per pseudo-legal move, "
              "inCheck, sqAttacked x64, evasions, captures, captures+checks, givesCheck, successor) per position. "
              "distinct_nontrivial = distinct (board,side,castling,ep) among rel-build cases that are in check, have a "
              "pinned piece, or have e.p./castling/promotion available (features measured with refchess)")
    c.extra.update(moves_checked=st.get("moves", 0), perft_checks=st.get("perft_checks", 0),
                   fen_rejected_by_reader=st.get("fen_rejected", 0),
                   evasion_positions=st.get("evasion_positions", 0),
                   features={f: st.get(f, 0) for f in FEATURES},
                   origins={k[7:]: v for k, v in st.items() if k.startswith("origin_")},
                   asan_positions=sum(r.stats.get("positions", 0) for r in res[shards:]),
                   exhaustive=False)
    c.assumptions += ["refchess (independent mailbox rules implementation) is correct; re-validated against published "
                      "perft values at the start of every harness process",
                      "ASan/UBSan only see errors on executed paths"]
    for t in TEMPLATES:
        if st.get("origin_synth_" + t, 0) == 0:
            raise core.HarnessError("template %s never produced" % t)
    for f in FEATURES:
        if st.get(f, 0) == 0:
            raise core.HarnessError("feature class %s never produced" % f)
