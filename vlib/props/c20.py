"""C20 - the rank-constraint solver decides satisfiability exactly (h_csp vs exhaustive enumeration / z3)."""
import os
from .. import core, build as B


def run(c):
    quick = c.tier == "quick"
    n_rel = int((400000 if quick else 20000000) * c.scale)
    n_asan = int((60000 if quick else 2000000) * c.scale)
    B.build([("rel", "h_csp"), ("asan", "h_csp")])
    shards = core.NCPU
    cmds, hfiles = [], []
    for i in range(shards):
        hf = os.path.join(core.TMP, "c20_%d_%d.h64" % (os.getpid(), i))
        hfiles.append(hf)
        cmds.append([B.exe("rel", "h_csp"), str(c.seed * 1000 + i), str(n_rel // shards), hf])
    for i in range(shards):
        cmds.append([B.exe("asan", "h_csp"), str(c.seed * 1000 + 500 + i), str(n_asan // shards)])
    res = core.run_many(cmds, timeout=3600)
    c.absorb("csp-vs-enumeration", res[:shards])
    c.absorb("csp-asan-ubsan", res[shards:])
    st = core.merge_stats(res)
    c.evaluations = st.get("systems", 0)
    c.distinct = core.count_distinct(hfiles)
    c.rule = ("random systems (1..10 variables, ranges inside [-16,47] incl. window edges and empty initial domains, parity flags, addMinVal/addMaxVal tightenings inside the window, "
              "0..25 constraints <=, >=, == with offsets -70..70, all four value preferences; domain product capped at 4e6), structured systems shaped like extproofkernel.cpp "
              "(pawn chains with +1/-1 equalities, parity, rank pins, cyclic equalities) and systems with exactly 192 stored constraints (the bit-set limit); oracle: exhaustive "
              "enumeration with early constraint checks (z3 as fallback when its node budget is exceeded); solver answer must equal satisfiability and a returned assignment must satisfy "
              "every range, parity and constraint. distinct_nontrivial = distinct systems with at least one constraint (rel shards)")
    c.extra.update(incremental_second_solves_on_the_same_object=st.get("incremental_second_solves", 0), satisfiable=st.get("satisfiable", 0), decided_by_enumeration=st.get("decided_by_enumeration", 0), decided_by_z3=st.get("decided_by_z3", 0),
                   undecided=st.get("undecided", 0), zero_constraint_systems=st.get("zero_constraints", 0), structured=st.get("gen_structured", 0), extreme_offset_systems=st.get("gen_extreme_offsets", 0),
                   at_192_constraint_limit=st.get("gen_192_constraints", 0), asan_systems=sum(r.stats.get("systems", 0) for r in res[shards:]), exhaustive=False)
    c.assumptions += ["systems whose domain product exceeds 4e6 are outside the property's quantifier and not generated (the solver's running time on a wide unconstrained variable "
                      "with an empty domain elsewhere is exponential; that is a performance matter, not a wrong answer)"]
    if st.get("satisfiable", 0) == 0 or st.get("gen_192_constraints", 0) == 0:
        raise core.HarnessError("no satisfiable system / no 192-constraint system generated")
