"""C19 - book-builder graph scores stay at their defined fixed point (h_bb).

Random operation histories on BookBuild::Book through the declared test friend (::BookBuildTest):
addPosToBook (incl. positions that acquire several parents / already have children), setSearchResult
(ordinary, zero, mate, win/lose-threshold, INVALID, IGNORE; best move = book child / non-book move / empty),
addPending/removePending, addToBook of random game trees, writeToFile+readFromFile (second book that is
discarded, second book that replaces the first, in place), optional backup file.  After the operations the
harness recomputes every derived quantity from its own model (set of positions + stored search results +
pending set) and compares all nodes."""
import os
from .. import core, build as B


def run(c):
    quick = c.tier == "quick"
    n_rel = int((200 if quick else 10000) * c.scale)
    n_asan = int((24 if quick else 480) * c.scale)
    B.build([("rel", "h_bb"), ("asan", "h_bb")])
    core.ensure_nets(["material_1"])
    shards = core.NCPU
    ashards = max(1, min(shards, 8 if not quick else 6))
    per = max(1, (n_rel + shards - 1) // shards)
    aper = max(1, (n_asan + ashards - 1) // ashards)
    cmds, hfiles = [], []
    for i in range(shards):
        hf = os.path.join(core.TMP, "c19_%d_%d.h64" % (os.getpid(), i))
        hfiles.append(hf)
        cmds.append([B.exe("rel", "h_bb"), str(c.seed * 1000 + i), str(per), hf])
    for i in range(ashards):
        hf = os.path.join(core.TMP, "c19a_%d_%d.h64" % (os.getpid(), i))
        hfiles.append(hf)
        cmds.append([B.exe("asan", "h_bb"), str(c.seed * 1000 + 500 + i), str(aper), hf])
    res = core.run_many(cmds, timeout=7200)
    c.absorb("book-graph-recompute", res[:shards])
    c.absorb("book-graph-recompute-asan-ubsan", res[shards:])
    st = core.merge_stats(res)
    c.evaluations = st.get("oracle_passes", 0)
    c.distinct = core.count_distinct(hfiles)
    c.rule = ("one history = new Book (cost constants 100/200/50 or random 1..250) + 150..450 random operations (plus score bursts after game imports): "
              "A addPosToBook under a random/recent node with a random or 'narrow' legal move, 45% of the picks aimed at a position that already has >=2 potential "
              "parents in the book; S setSearchResult (scores: ordinary, 0, +-(32000-k), +-16000+-2, INVALID, IGNORE; best move book child / non-book / empty; "
              "INVALID never together with a best move that is a book child - outside the documented domain); P+/P- addPending/removePending (<=8 marks); "
              "I addToBook of a GameTree made of 1..40 lines with shared prefixes, random maxPly; W writeToFile+readFromFile (3 modes); 20% of the books keep a backup "
              "file that is read into a third book at the end. Three size classes (<=150, <=600, <=3000+ nodes). Oracle pass = from-scratch recomputation over the whole "
              "graph from the harness model (edges = refchess legal moves between book positions, depth = BFS, negamax and both expansion costs in reverse topological "
              "order, path errors in topological order, hashToParent = all (successor, node) pairs, stored score/move/time, node state) compared with every node; run after "
              "every operation while the book has <=300 nodes, every ceil(nodes/300)-th operation above that, always after I and W, before W and at the end of the history; "
              "after W the reloaded book is also compared node by node with the book that was written. evaluations = oracle passes (whole-book comparisons); "
              "distinct_nontrivial = distinct histories (hash of the operation list). One directed history per process replays the chain of "
              "BookBuildTest::testBookNode through the Book API. Expansion-cost equation as in the header, with the three code-level refinements that the repository's "
              "own passing unit test pins: a pending node with INVALID search score is not forced to INVALID (testBookNode expects 200150), move error 1000 when the node's "
              "negamax score is INVALID (same assertion), own-move choice -10000 when a child node exists for the best non-book move (bookbuild.cpp comment 'obsoleted by a child node')")
    keys = ["histories", "directed_histories", "ops", "op_add", "op_set", "op_pending_on", "op_pending_off", "op_import", "op_saveload",
            "saveload_mode_discard", "saveload_mode_continue", "saveload_mode_inplace", "saveload_with_pending_marks", "saveload_skipped_path_blowup",
            "backup_file_reads", "import_lines", "import_nodes_added",
            "add_new_node_with_several_parents", "add_new_node_with_existing_children", "final_nodes", "final_edges", "final_multi_parent_nodes",
            "final_nodes_with_valid_negamax", "histories_with_2000plus_nodes", "histories_class_0", "histories_class_1", "histories_class_2",
            "max_nodes", "max_depth", "max_multi_parent_nodes_in_a_book", "max_op_microseconds", "max_reload_descent_paths",
            "set_score_ord", "set_score_zero", "set_score_mate", "set_score_threshold", "set_score_invalid", "set_score_ignore",
            "set_best_child", "set_best_nonbook", "set_best_empty", "oracle_passes", "node_evaluations", "ops_without_immediate_oracle_pass",
            "path_error_went_stale_events", "path_error_mismatches_counted_not_printed", "oracle_self_tests"]
    c.extra.update({k: st.get(k, 0) for k in keys})
    c.extra.update(asan_histories=sum(r.stats.get("histories", 0) for r in res[shards:]),
                   asan_ops=sum(r.stats.get("ops", 0) for r in res[shards:]), exhaustive=False)
    c.assumptions += ["refchess legal move generation (perft self-test each process) defines the edges between book positions; engine Position::bookHash identifies positions",
                      "oracle self test each process: clean book passes; unpropagated score, stale pending mark, wrong depth/path error, missing hashToParent entry, one-sided link are each noticed",
                      "lines are at most ~80 plies deep, so the half-move clock stays below 100 (bookHash saturates there and cycles become possible) and accumulated costs stay inside int",
                      "no real searches: search results are injected with BookNode::setSearchResult, pending marks with Book::addPending/removePending"]
    need = ["op_add", "op_set", "op_pending_on", "op_pending_off", "op_import", "saveload_mode_discard", "saveload_mode_continue", "saveload_mode_inplace",
            "add_new_node_with_several_parents", "add_new_node_with_existing_children", "set_score_mate", "set_score_invalid", "set_score_ignore",
            "set_best_child", "set_best_nonbook", "set_best_empty", "backup_file_reads", "final_multi_parent_nodes"]
    missing = [k for k in need if st.get(k, 0) == 0]
    if missing:
        raise core.HarnessError("operation classes never exercised: %s" % missing)
    if st.get("max_nodes", 0) < (2000 if c.scale >= 1 else 0):
        raise core.HarnessError("no book with >= 2000 nodes was produced (max %d)" % st.get("max_nodes", 0))
    if st.get("oracle_self_tests", 0) != len(cmds) and not any(r.timeout for r in res):
        # a shard that died early is reported by absorb(); a missing self test without a crash is a harness problem
        if all(r.rc == 0 for r in res):
            raise core.HarnessError("oracle self test did not run in every shard")
