"""C11 - draws by repetition and the 50-move rule.
Part 1: search side over UCI ('go depth d searchmoves m' must score a move that creates the third
occurrence / completes 100 reversible plies as exactly cp 0, a mating move still as mate 1).
Part 2: console game mode (h_game) against a reference model of FIDE claims and terminal states."""
import concurrent.futures
import random
import subprocess

from .. import core, build as B, uci

NET = "material_1"


def gen_cases(seed, n):
    out = subprocess.run([B.exe("rel", "posgen-cli"), "c11", str(seed), str(n)], stdout=subprocess.PIPE, text=True, check=True).stdout
    cases = []
    for l in out.splitlines():
        parts = [x.strip() for x in l.split("|")]
        if len(parts) == 5:
            cases.append(parts)
    return cases


def worker(args):
    seed, cases = args
    rnd = random.Random(seed)
    ref = uci.RefCli.get()
    eng = uci.Engine("rel", NET)
    eng.send("uci"); eng.isready()
    res = dict(viol=[], n=0, by={}, samples=[])
    mpv = 1
    try:
        for fen, moves, m, expect, tag in cases:
            # sanity: the history must be legal according to the oracle (generator and oracle are the same code base,
            # so this guards only against transcription errors)
            ok, msg = ref.apply(fen, moves.split() + [m])
            if not ok:
                raise core.HarnessError("generator produced illegal history: " + msg)
            want_mpv = rnd.choice([1, 1, 2])
            if want_mpv != mpv:
                eng.send("setoption name MultiPV value %d" % want_mpv)
                mpv = want_mpv
            if rnd.random() < .15:
                eng.send("setoption name Clear Hash")
            d = rnd.randint(1, 8)
            pos_cmd = "position fen %s%s" % (fen, (" moves " + moves) if moves else "")
            eng.send(pos_cmd)
            go = "go depth %d searchmoves %s" % (d, m)
            ls, best = eng.go(go, timeout=120)
            script = "%s ; %s (MultiPV %d) [%s]" % (pos_cmd, go, mpv, tag)
            res["n"] += 1
            key = expect + ":" + tag.split()[0]
            res["by"][key] = res["by"].get(key, 0) + 1
            if best is None:
                res["viol"].append(("no-bestmove", script))
                break
            last = None
            for l in ls:
                k, mm = uci.classify(l)
                if k == "pv" and mm.group("pv").split()[:1] == [m]:
                    last = mm
            if last is None:
                res["viol"].append(("no-score-line", script))
                continue
            got = "%s %s%s" % (last.group("kind"), last.group("score"), last.group("bound") or "")
            if expect == "draw" and got != "cp 0":
                res["viol"].append(("draw-not-scored-zero", "%s -> %s" % (script, got)))
            elif expect == "mate1" and got != "mate 1":
                res["viol"].append(("mating-move-not-mate1", "%s -> %s" % (script, got)))
            if expect == "draw" and rnd.random() < .6:
                # The same root without the searchmoves filter: the side to move can play m and have a draw, so the value of the root
                # is at least 0. (m is then usually not the first root move and, in a worse position, is re-searched after failing high -
                # a path the single-move search above never takes.)
                d2 = rnd.randint(2, 7)
                ls2, best2 = eng.go("go depth %d" % d2, timeout=120)
                res["n"] += 1
                res["by"]["root-value:" + tag.split()[0]] = res["by"].get("root-value:" + tag.split()[0], 0) + 1
                fin = None
                for l in ls2:
                    k, mm = uci.classify(l)
                    if k == "pv" and not mm.group("bound") and (mm.group("multipv") in (None, "1")):
                        fin = mm
                if best2 is None:
                    res["viol"].append(("no-bestmove", script + " ; go depth %d" % d2)); break
                if fin is not None:
                    val = int(fin.group("score"))
                    if (fin.group("kind") == "cp" and val < 0) or (fin.group("kind") == "mate" and val < 0):
                        res["viol"].append(("drawing-move-available-but-root-scored-below-zero", "%s ; go depth %d -> %s (move %s draws)" % (pos_cmd, d2, fin.group(0)[:120], m)))
            if len(res["samples"]) < 1 and expect != "control":
                res["samples"].append("%s -> %s (expected %s)" % (script, got, expect))
    finally:
        eng.close()
    return res


def run_game_mode(c, quick):
    exe = B.exe("rel", "h_game")
    import os
    if not os.path.exists(os.path.join(B.SRC, "h_game.cpp")):
        return None
    B.build([("rel", "h_game"), ("asan", "h_game")])
    n = int((16000 if quick else 800000) * c.scale)
    cmds = [[B.exe("rel", "h_game"), str(c.seed * 1000 + i), str(n // core.NCPU)] for i in range(core.NCPU)]
    cmds += [[B.exe("asan", "h_game"), str(c.seed * 1000 + 500 + i), str(max(1, n // 10 // 4))] for i in range(4)]
    res = core.run_many(cmds, timeout=3600)
    c.absorb("console-game-model", res)
    return core.merge_stats(res)


def run(c):
    quick = c.tier == "quick"
    n = int((3000 if quick else 60000) * c.scale)
    B.build([("rel", "texel"), ("rel", "posgen-cli"), ("rel", "refchess-cli")])
    core.ensure_nets([NET])
    cases = gen_cases(c.seed, n)
    per = max(1, len(cases) // (core.NCPU * 2))
    jobs = [(c.seed * 1000 + i, cases[i:i + per]) for i in range(0, len(cases), per)]
    by = {}
    tot = 0
    with concurrent.futures.ThreadPoolExecutor(max_workers=core.NCPU) as ex:
        for r in ex.map(worker, jobs):
            for kind, wit in r["viol"]:
                c.violation("search-draw-scores", kind, wit)
            tot += r["n"]
            for k, v in r["by"].items():
                by[k] = by.get(k, 0) + v
            for s in r["samples"]:
                c.sample(s)
    gm = run_game_mode(c, quick)
    asserted = sum(v for k, v in by.items() if not k.startswith("control"))
    c.evaluations = tot + (gm.get("commands", 0) if gm else 0)
    c.distinct = (len(set((a, b, m) for a, b, m, _, _ in cases)) if cases else 0) + (gm.get('distinct_local', 0) if gm else 0)
    c.rule = ("search side: one case = (start FEN, legal move history, candidate move m, expectation) generated with refchess: cycles of reversible moves creating "
              "2nd/3rd occurrences at history lengths 3..130 of both parities, cycles before/after an irreversible move, first occurrence carrying an uncapturable "
              "e.p. square (FIDE-identical), half-move clocks 90..110 by FEN and by played moves, mating moves on the 100th ply; 'go depth 1..8 searchmoves m', MultiPV 1/2; "
              "asserted: draw => final score 'cp 0', mate => 'mate 1'; for 60% of the draw cases also the unrestricted search of the same root (depth 2..7): its value must be >= 0 because m is available;  controls (2nd occurrence, clock<99, irreversible m) are run but nothing is asserted on their score. "
              "distinct_nontrivial = distinct (fen, history, m) plus distinct console-game command histories. Console part: random command histories "
              "(moves biased to reversible shuffles, undo/redo, draw rep/50 [move], draw offer, draw accept, resign, setpos, swap) and directed histories "
              "(double push leaving an uncapturable e.p. square, undo/redo, two cycles, claim) against a reference model of FIDE claims/terminal states; "
              "getGameState(), haveDrawOffer() and the position are compared after every command")
    c.extra.update(search_cases=tot, asserted_cases=asserted, by_expectation_and_kind=by, exhaustive=False)
    if gm:
        c.extra.update(console_game=dict(gm))
    c.assumptions += ["refchess FIDE position identity (legally capturable e.p. only) and move rules", "Contempt 0, no tablebases (depth-limited searches)"]
    if asserted == 0:
        raise core.HarnessError("no asserted cases")
