"""C09 - multi-threaded operation is free of data races (ThreadSanitizer builds of texel and texelutil)."""
import concurrent.futures
import os
import random
import re
import subprocess

from .. import core, build as B, uci, sessions

TSAN = "halt_on_error=0:report_signal_unsafe=0:history_size=4:second_deadlock_stack=1"


def tsan_summary(stderr):
    reps = [r for r in core.sanitizer_reports(stderr) if r["kind"] == "tsan"]
    out = []
    for r in reps:
        frames = [f for f in r["frames"] if "/repo/" in f[1] or f[1].startswith(B.REPO)]
        sites = []
        for func, path, line in frames:
            s = re.sub(r"\(.*$", "", func) + "@" + os.path.basename(path)
            if s not in sites:
                sites.append(s)
            if len(sites) >= 3:
                break
        out.append((r["msg"] + " " + " / ".join(sites), r["raw"]))
    return out


def one_session(args):
    seed, = args
    rnd = random.Random(seed)
    cmds, end = sessions.gen_session(rnd, maxlen=40, threads_bias=True)
    pre = [("uci", 0), ("setoption name Threads value %d" % rnd.choice([2, 3, 4, 8]), 0), ("isready", 0)]
    if rnd.random() < .3:
        pre.append(("setoption name OwnBook value true", 0))
    cmds = pre + cmds
    eng, rc = sessions.run_session("tsan", rnd.choice(["material_1", "random-small_1"]), cmds, end, exit_timeout=240, best_wait=15,
                                   extra_env={"TSAN_OPTIONS": TSAN})
    script = " ; ".join(c for c, _ in cmds) + " ; <%s>" % end
    v = sessions.judge(eng, rc, end)
    thr = max([int(c.split()[-1]) for c, _ in cmds if c.startswith("setoption name Threads value") and c.split()[-1].isdigit() and 0 < int(c.split()[-1]) <= 8] or [1])
    return dict(races=tsan_summary(eng.stderr_text()), script=script, viol=v, ngo=sum(1 for c, _ in cmds if c.startswith("go")), threads=thr, rc=rc)


def run(c):
    quick = c.tier == "quick"
    B.build([("tsan", "texel"), ("tsan", "texelutil"), ("tsan", "h_tt"), ("rel", "h_pg")])
    core.ensure_nets(["material_1", "random-small_1"])
    nsess = int((48 if quick else 500) * c.scale)
    races = {}
    scripts = set()
    ngo = 0
    maxthr = 0
    with concurrent.futures.ThreadPoolExecutor(max_workers=8) as ex:      # each session runs up to 8 search threads under TSan
        for r in ex.map(one_session, [(c.seed * 100000 + i,) for i in range(nsess)]):
            for key, raw in r["races"]:
                races.setdefault(key, (raw, r["script"]))
            for kind, det in r["viol"]:
                # the session contract is C05's business; under TSan only crashes/hangs are reported here
                if kind in ("hang-at-exit", "exit-status") and not r["races"]:
                    c.violation("tsan-uci-session", kind, "%s | %s" % (det, r["script"]))
            scripts.add(r["script"]); ngo += r["ngo"]; maxthr = max(maxthr, r["threads"])
    for key, (raw, script) in races.items():
        c.violation("tsan-uci-session", "data-race", key, detail="script: %s\n%s" % (script, raw))
    # texelutil proofgame filter with worker pools
    fens = subprocess.run([B.exe("rel", "h_pg"), "genfens", str(c.seed), str(24 if quick else 60)], stdout=subprocess.PIPE, text=True).stdout
    fens = "\n".join(l[4:].split(" | ")[0] for l in fens.splitlines() if l.startswith("FEN ")) + "\n"
    if fens.count("\n") < 10:
        raise core.HarnessError("position generator produced no FEN list")
    nfil = 0
    ndamaged = 0
    for j in ([4, 16] if quick else [2, 3, 4, 8, 12, 16]):
        for mode in (["-f"], ["-f", "-o", os.path.join(core.TMP, "c09_pg_%d" % os.getpid())]):
            if mode != ["-f"] and quick and j != 4:
                continue
            r = core.run_proc([B.exe("tsan", "texelutil"), "-j", str(j), "proofgame"] + mode, env={"TSAN_OPTIONS": TSAN}, stdin_data=fens,
                              timeout=300 if len(mode) > 1 else 1800)
            nfil += 1
            for key, raw in tsan_summary(r.stderr):
                c.violation("tsan-texelutil-proofgame", "data-race", key, detail="texelutil -j %d proofgame %s\n%s" % (j, " ".join(mode), raw))
            if mode == ["-f"]:
                # resume from a damaged intermediate file: some worker tasks end with an exception while the others keep running
                # (the exception path of the thread pool's bookkeeping); the tool is expected to stop with an error, not to race
                dmg, ndmg = [], 0
                for i, l in enumerate(r.stdout.splitlines()):
                    if " extKernel: " in l and not l.rstrip().endswith("extKernel:") and i % 3 == 0:
                        head, _, tail = l.rpartition(" extKernel: ")
                        toks = tail.split()
                        k = (i // 3) % len(toks)
                        toks[k] = re.sub(r"\d(?!.*\d)", "9", toks[k]) if re.search(r"\d", toks[k]) else toks[k] + "9"
                        l = head + " extKernel: " + " ".join(toks); ndmg += 1
                    dmg.append(l)
                if ndmg:
                    r2 = core.run_proc([B.exe("tsan", "texelutil"), "-j", str(j), "proofgame", "-f"], env={"TSAN_OPTIONS": TSAN}, stdin_data="\n".join(dmg) + "\n", timeout=600)
                    nfil += 1; ndamaged += ndmg
                    for key, raw in tsan_summary(r2.stderr):
                        c.violation("tsan-texelutil-proofgame", "data-race", key, detail="texelutil -j %d proofgame -f on a damaged intermediate file\n%s" % (j, raw))
            if r.timeout and len(mode) == 1:
                c.inconclusive.append("texelutil -j %d proofgame -f timed out under TSan" % j)
    for f in os.listdir(core.TMP):
        if f.startswith("c09_pg_%d" % os.getpid()):
            os.unlink(os.path.join(core.TMP, f))
    rt = core.run_proc([B.exe("tsan", "h_tt"), "hammer", str(c.seed), "8", str(100000 if quick else 3000000), "2", "6"], env={"TSAN_OPTIONS": TSAN}, timeout=3600)
    for key, raw in tsan_summary(rt.stderr):
        c.violation("tsan-tt-hammer", "data-race", key, detail=raw)
    c.evaluations = nsess + nfil + 1
    c.distinct = len(scripts)
    c.rule = ("TSan builds: (a) random UCI sessions (as C05) with Threads 2..8, option changes between and during searches (Hash resize, Threads up/down, Clear Hash, MultiPV, Strength, "
              "Contempt, OwnBook/BookFile), ponder/ponderhit, stop, ucinewgame, quit/EOF mid-search; (b) 'texelutil -j N proofgame -f' and '-f -o' on generated FEN lists; (c) the C08 TT "
              "hammer. Every ThreadSanitizer report is a violation, de-duplicated by message + first three distinct engine frames. distinct_nontrivial = distinct session scripts")
    c.extra.update(sessions=nsess, go_commands=ngo, max_threads_option=maxthr, proofgame_runs=nfil, damaged_intermediate_lines=ndamaged, tsan_reports=len(races), exhaustive=False)
    c.assumptions += ["TSan only sees pairs of accesses that executed in these runs; the Syzygy prober (atomic_thread_fence, unsupported by TSan) never executes without tablebase files"]
