"""C08 - transposition table never returns mixed or out-of-range data (h_tt: rel, ASan/UBSan, TSan)."""
from .. import core, build as B


def run(c):
    quick = c.tier == "quick"
    B.build([("rel", "h_tt"), ("asan", "h_tt"), ("tsan", "h_tt")])
    ops = int((6000000 if quick else 60000000) * c.scale)
    res_all = []
    st_h = {}
    # hammer: run configurations one after another (each uses its own thread count)
    cfgs = [(2, 1, 5), (4, 1, 6), (8, 2, 8), (16, 1, 8), (16, 4, 6), (12, 3, 5), (1, 2, 8), (1, 64, 6)]
    for i, (th, nb, kp) in enumerate(cfgs):
        r = core.run_proc([B.exe("rel", "h_tt"), "hammer", str(c.seed * 100 + i), str(th), str((ops * 16 // th // 2) if th > 1 else ops // 2), str(nb), str(kp)], timeout=3600)
        c.absorb("tt-hammer", [r])
        for k, v in r.stats.items():
            if k.startswith("hammer_") and k not in ("hammer_threads", "hammer_keys", "hammer_buckets", "hammer_twin_keys"):
                st_h[k] = st_h.get(k, 0) + v
    env_tsan = {"TSAN_OPTIONS": "halt_on_error=0:report_signal_unsafe=0"}
    rt = core.run_proc([B.exe("tsan", "h_tt"), "hammer", str(c.seed), "8", str(ops // 20), "2", "6"], env=env_tsan, timeout=3600)
    c.absorb("tt-hammer-tsan", [rt], expect_rc0=False)
    ra = core.run_proc([B.exe("asan", "h_tt"), "hammer", str(c.seed), "8", str(ops // 10), "2", "6"], timeout=3600)
    c.absorb("tt-hammer-asan", [ra])
    # bounds under ASan: all sizes, sharded
    S = core.NCPU
    rb = core.run_many([[B.exe("asan", "h_tt"), "bounds", str(c.seed), str(i), str(S), "20" if quick else "23"] for i in range(S)], timeout=7200)
    c.absorb("tt-bounds-asan", rb)
    st_b = core.merge_stats(rb)
    rp = core.run_many([[B.exe("rel", "h_tt"), "ply", str(c.seed)], [B.exe("asan", "h_tt"), "ply", str(c.seed + 1)],
                        [B.exe("rel", "h_tt"), "tbregion", str(c.seed), str(3000000 if quick else 40000000)],
                        [B.exe("asan", "h_tt"), "tbregion", str(c.seed + 1), str(300000 if quick else 4000000)]], timeout=7200)
    c.absorb("tt-ply-and-tbregion", rp)
    st_p = core.merge_stats(rp)
    hits = st_h.get("hammer_hits", 0)
    c.evaluations = hits + st_h.get("hammer_misses", 0) + st_h.get("hammer_inserts", 0) + st_b.get("bounds_ops", 0) + st_p.get("ply_cases", 0) + st_p.get("tbregion_ops", 0)
    c.distinct = st_b.get("bounds_sizes", 0) + len(cfgs) + st_p.get("tbregion_rounds", 0)
    c.rule = ("(1) hammer: 2..16 threads on 1..4 buckets with 5..8 keys each (more keys than slots): every stored record is a fixed function of (key, 16-bit nonce kept in evalScore); "
              "every probe hit is re-derived and compared (generation/busy excluded: probes legitimately rewrite them); also under TSan and ASan; two single-threaded configurations in which every second key is the twin of its neighbour (differs by exactly the data-word bits of one in-place field update: generation, busy flag, bound type), so that a slot whose two words were not rewritten together answers for a key it was never stored under; (2) ply shift: all mate-band scores x store ply x "
              "probe ply through insert/probe; (3) bounds under ASan: every table size 2^n, 2^n+-4, +-1, 3/2, 5/4, 3/4+2 (n=9..), Hash 1..64 MB, reduced sizes with a resident tablebase, "
              "1024, 100 random sizes >=512 x all 65536 top-16-bit values (every 7th for tables > 2^18) x 9 low-bit patterns: insert+probe inside the heap block; (4) tablebase region: "
              "checksum of the reserved region and DTM re-probes unchanged by random inserts/probes/generation changes incl. boundary keys, across clear()/reSize. "
              "evaluations = table operations; distinct_nontrivial = distinct table sizes + hammer configurations + tablebase rounds")
    c.extra.update(hammer_hits_verified=hits, hammer_misses=st_h.get("hammer_misses", 0), hammer_inserts=st_h.get("hammer_inserts", 0), hammer_configs=cfgs,
                   tsan_hits=rt.stats.get("hammer_hits", 0), tsan_reports=len(rt.reports), bounds_table_sizes=st_b.get("bounds_sizes", 0), bounds_ops=st_b.get("bounds_ops", 0),
                   ply_cases=st_p.get("ply_cases", 0), tbregion_ops=st_p.get("tbregion_ops", 0), tbregion_dtm_reprobes=st_p.get("tbregion_dtm_reprobes", 0), exhaustive=False)
    c.assumptions += ["interleavings are those the OS produces on 16 cores; the mixing window is two relaxed stores wide, so many operations on few slots are used rather than enumeration",
                      "table sizes below 512 entries are outside the property's domain"]
    if hits < 1000000:
        c.inconclusive.append("fewer than 1e6 verified probe hits")
