"""C03 - every search result is a legal, well-formed answer in any configuration.
Real texel processes (rel for volume, asan for a slice) driven over pipes; refchess judges
legality of bestmove / ponder move / every PV; strict grammar for every line."""
import concurrent.futures
import random
import subprocess
import time

from .. import core, build as B, uci

NETS = ["material_1", "material_2", "random-small_1", "random-wide_1", "extreme_1"]


def gen_positions(seed, n):
    out = subprocess.run([B.exe("rel", "posgen-cli"), "positions", str(seed), str(n)], stdout=subprocess.PIPE, text=True, check=True).stdout
    return [l for l in out.splitlines() if l]


def check_search(c, ref, fen, root_moves, lines, best, searchmoves, multipv, tag, script):
    """Oracle for one search. Returns a list of (kind, witness) violations."""
    v = []
    legal, in_check = root_moves
    wit = lambda s: "%s | %s" % (s, script)
    groups = []
    cur = []
    last_idx = 0
    n_pv = 0
    for l in lines:
        kind, m = uci.classify(l)
        if kind is None:
            v.append(("malformed-line", wit(repr(l))))
            continue
        if kind == "pv":
            n_pv += 1
            sk, sc = m.group("kind"), int(m.group("score"))
            if sk == "cp" and not (-16000 <= sc <= 16000):
                v.append(("cp-out-of-range", wit(l)))
            if sk == "mate" and not (1 <= abs(sc) <= 8000):
                v.append(("mate-distance-out-of-range", wit(l)))
            pv = m.group("pv").split()
            if not pv:
                v.append(("empty-pv", wit(l)))
            else:
                ok, msg = ref.apply(fen, pv)
                if not ok:
                    v.append(("illegal-pv", wit(l + "  => " + msg)))
                if searchmoves and pv[0] not in searchmoves:
                    v.append(("pv-not-in-searchmoves", wit(l)))
            idx = m.group("multipv")
            if idx is not None:
                idx = int(idx)
                if idx < 1 or idx > max(1, multipv):
                    v.append(("multipv-index-out-of-range", wit(l)))
                if idx <= last_idx:
                    groups.append(cur)
                    cur = []
                cur.append((idx, pv[0] if pv else None, l))
                last_idx = idx
            elif multipv > 1 and len(legal) > 1 and (not searchmoves or len(searchmoves) > 1):
                pass  # maxPV is clamped to the number of root moves; index absent only when effective maxPV == 1
    if cur:
        groups.append(cur)
    for g in groups:
        firsts = [x[1] for x in g]
        if len(set(firsts)) != len(firsts):
            v.append(("multipv-duplicate-first-move", wit(" // ".join(x[2] for x in g))))
    if best is None:
        v.append(("no-bestmove", wit("no bestmove within timeout")))
        return v, n_pv, len(groups)
    kind, m = uci.classify(best)
    if kind != "bestmove":
        v.append(("malformed-line", wit(repr(best))))
        return v, n_pv, len(groups)
    bm, pm = m.group("move"), m.group("ponder")
    allowed = [x for x in legal if (not searchmoves or x in searchmoves)]
    if not allowed:
        if bm != "0000":
            v.append(("bestmove-without-legal-moves", wit(best)))
    else:
        if bm == "0000":
            v.append(("null-bestmove-with-legal-moves", wit(best + " legal=%d" % len(allowed))))
        elif bm not in legal:
            v.append(("illegal-bestmove", wit(best)))
        elif bm not in allowed:
            v.append(("bestmove-not-in-searchmoves", wit(best)))
        elif pm:
            ok, msg = ref.apply(fen, [bm, pm])
            if not ok:
                v.append(("illegal-ponder-move", wit(best)))
    return v, n_pv, len(groups)


def session(args):
    variant, seed, fens, nsearch = args
    rnd = random.Random(seed)
    ref = uci.RefCli.get()
    net = rnd.choice(NETS)
    res = dict(viol=[], searches=0, pv_lines=0, groups=0, configs=set(), samples=[], stderr="", rc=0, kinds={})
    eng = uci.Engine(variant, net)
    script = ["# net=%s variant=%s" % (net, variant)]

    def send(cmd):
        script.append(cmd)
        eng.send(cmd)

    opts = dict(Hash=16, Threads=1, MultiPV=1, Strength=1000, UCI_LimitStrength="false", UCI_Elo=1500, MaxNPS=0,
                UseNullMove="true", UCI_AnalyseMode="false", Contempt=0, AnalyzeContempt=0)
    send("uci")
    send("isready")
    try:
        for si in range(nsearch):
            # option changes
            for name, choices in (("Hash", [1, 2, 4, 16, 64]), ("Threads", [1, 1, 2, 3, 4, 8]), ("MultiPV", [1, 1, 2, 3, 5]),
                                  ("Strength", [1000, 1000, 1000, 0, 1, 100, 500, 900, 999]), ("UCI_LimitStrength", ["false", "false", "true"]),
                                  ("UCI_Elo", [-625, 0, 1500, 2500, 2900]), ("MaxNPS", [0, 0, 0, 1000, 50000]),
                                  ("UseNullMove", ["true", "false"]), ("UCI_AnalyseMode", ["false", "false", "true"]),
                                  ("Contempt", [0, 0, -50, 30, 200]), ("AnalyzeContempt", [0, 40, -100])):
                if rnd.random() < (0.5 if si == 0 else 0.2):
                    val = rnd.choice(choices)
                    opts[name] = val
                    send("setoption name %s value %s" % (name, val))
            if rnd.random() < 0.1:
                send("setoption name Clear Hash")
            if rnd.random() < 0.1:
                send("ucinewgame")
            fen = rnd.choice(fens)
            legal, in_check = ref.legal(fen)
            if legal and rnd.random() < 0.3:
                # the same thing said with a move list: 'position fen F0 moves m1..mk' (the oracle works on the resulting position)
                f0, played = fen, []
                for _ in range(rnd.randint(1, 4)):
                    lg, _ic = ref.legal(fen)
                    if not lg:
                        break
                    mv = rnd.choice(lg)
                    ok, f2 = ref.apply(fen, [mv])
                    if not ok:
                        break
                    played.append(mv); fen = f2
                legal, in_check = ref.legal(fen)
                send("position fen %s moves %s" % (f0, " ".join(played)) if played else "position fen " + f0)
            else:
                send("position fen " + fen)
            kind = rnd.choice(["depth", "depth", "depth", "nodes", "movetime", "clock", "mate", "infinite", "ponder"])
            slow = opts["MaxNPS"] and opts["MaxNPS"] <= 1000
            if kind == "depth":
                heavy = opts["UseNullMove"] == "false" or opts["Strength"] != 1000 or opts["UCI_LimitStrength"] == "true" or opts["MultiPV"] > 2 or not net.startswith("material")
                go = "go depth %d" % (rnd.randint(1, 4) if slow else rnd.choice([1, 2, 3, 4, 5, 6, 7] if heavy else [1, 2, 3, 4, 5, 6, 7, 8, 9, 10, 12]))
            elif kind == "nodes":
                go = "go nodes %d" % (rnd.choice([1, 10, 100]) if slow else rnd.choice([1, 10, 100, 1000, 20000, 100000]))
            elif kind == "movetime":
                go = "go movetime %d" % rnd.choice([1, 5, 20, 100, 300])
            elif kind == "clock":
                go = "go wtime %d btime %d winc %d binc %d" % (rnd.choice([1, 20, 500, 3000]), rnd.choice([1, 20, 500, 3000]),
                                                              rnd.choice([0, 5, 50]), rnd.choice([0, 5, 50]))
                if rnd.random() < 0.5:
                    go += " movestogo %d" % rnd.choice([1, 2, 10, 40])
            elif kind == "mate":
                go = "go mate %d" % rnd.randint(1, 3)
            elif kind == "ponder":
                go = "go ponder wtime %d btime %d" % (rnd.choice([50, 500, 3000]), rnd.choice([50, 500, 3000]))
            else:
                go = "go infinite"
            searchmoves = []
            if legal and rnd.random() < 0.3:
                k = 1 if rnd.random() < 0.4 else rnd.randint(1, min(len(legal), 6))
                searchmoves = rnd.sample(legal, k)
                sent = list(searchmoves)
                if rnd.random() < 0.3:      # a GUI may list a move twice: the root move list must still hold it once
                    sent += [rnd.choice(searchmoves) for _ in range(rnd.randint(1, 2))]
                    rnd.shuffle(sent)
                go += " searchmoves " + " ".join(sent)
            start = eng.nlines()
            send(go)
            if kind == "infinite":
                time.sleep(rnd.choice([0, 0.002, 0.02, 0.1, 0.3]))
                send("stop")
            if kind == "ponder":
                time.sleep(rnd.choice([0, 0.002, 0.02, 0.1]))
                send(rnd.choice(["ponderhit", "ponderhit", "stop"]))
            r = eng.wait_for(lambda l: l.startswith("bestmove"), start, 40)
            if not r:
                # a slow search is not a violation: ask it to stop; only a search that does not even stop is reported
                res["slow"] = res.get("slow", 0) + 1
                send("stop")
                r = eng.wait_for(lambda l: l.startswith("bestmove"), start, 60)
            with eng.cv:
                end = (r[0]) if r else len(eng.lines)
                lines = [t for _, t in eng.lines[start:end]]
            tag = "%s %s" % (kind, " ".join("%s=%s" % kv for kv in sorted(opts.items())))
            sc = " ; ".join(script[-40:])
            v, npv, ng = check_search(None, ref, fen, (legal, in_check), lines, r[1] if r else None, searchmoves,
                                      opts["MultiPV"], tag, sc)
            res["viol"] += v
            res["searches"] += 1
            res["pv_lines"] += npv
            res["groups"] += ng
            res["kinds"][kind] = res["kinds"].get(kind, 0) + 1
            st = "nolegal" if not legal else ("single" if len(legal) == 1 else "normal")
            res["configs"].add((fen, go.split(" searchmoves")[0], tuple(sorted(opts.items())), net, bool(searchmoves), st))
            if len(res["samples"]) < 1 and r:
                res["samples"].append("%s | %s | opts %s | net %s -> %s" % (fen, go, {k: v for k, v in opts.items() if v not in (0, 1, "false")}, net, r[1]))
            if not r:
                break
            # no search output may follow the bestmove until the next go: checked in C05; here only drain
    finally:
        rc = eng.close("quit")
        res["rc"] = rc
        res["stderr"] = eng.stderr_text()
        if rc != 0:
            res["viol"].append(("exit-status", "rc=%s | %s" % (rc, " ; ".join(script[-40:]))))
    return res


def tb_session(args):
    """A resident on-demand tablebase (built by an unlimited search on a <=4-men root) and then unlimited searches on
    5-men roots whose PVs run into that material: PV extension through the tablebase must still give playable lines."""
    from . import c13
    seed, = args
    rnd = random.Random(seed)
    ref = uci.RefCli.get()
    res = dict(viol=[], searches=0, pv_lines=0, groups=0, configs=set(), samples=[], stderr="", rc=0, kinds={}, tbhits=0)
    base, extra_side = rnd.choice([("KQKN", "b"), ("KQKR", "b"), ("KRKN", "b"), ("KQKB", "b"), ("KRKB", "b"), ("KKQ", "w"), ("KKR", "w")])
    eng = uci.Engine("rel", rnd.choice(["material_1", "material_2"]))
    script = []

    def send(c):
        script.append(c); eng.send(c)
    send("uci"); send("setoption name Hash value %d" % rnd.choice([8, 16, 64])); send("setoption name Threads value %d" % rnd.choice([1, 2])); send("isready")
    try:
        root4 = c13.random_root(rnd, base, ref)
        if not root4:
            return res
        send("position fen %s 0 1" % root4)
        st = eng.nlines(); send("go infinite")
        hit = eng.wait_for(lambda l: " tbhits " in l, st, 25)
        send("stop")
        if not eng.wait_for(lambda l: l.startswith("bestmove"), st, 60) or not hit:
            return res
        k2 = base.index("K", 1)
        for i in range(6):
            pc = rnd.choice("QRBN")
            cls5 = (base[:k2] + pc + base[k2:]) if extra_side == "w" else (base + pc)
            fen5 = c13.random_root(rnd, cls5, ref)
            if not fen5:
                continue
            fen = fen5 + " 0 1"
            legal, in_check = ref.legal(fen)
            send("position fen " + fen)
            st = eng.nlines(); send("go infinite")
            time.sleep(rnd.choice([0.2, 0.6, 1.2]))
            send("stop")
            r = eng.wait_for(lambda l: l.startswith("bestmove"), st, 60)
            with eng.cv:
                lines = [t for _, t in eng.lines[st:(r[0] if r else len(eng.lines))]]
            v, npv, ng = check_search(None, ref, fen, (legal, in_check), lines, r[1] if r else None, [], 1, "tb-resident", " ; ".join(script[-6:]))
            res["viol"] += v; res["searches"] += 1; res["pv_lines"] += npv; res["groups"] += ng
            res["kinds"]["tb-resident-5men"] = res["kinds"].get("tb-resident-5men", 0) + 1
            res["tbhits"] += sum(1 for l in lines if " tbhits " in l)
            res["configs"].add((fen, "go infinite", ("tb", base), "", False, "normal"))
            if not r:
                break
    finally:
        res["rc"] = eng.close("quit")
        res["stderr"] = eng.stderr_text()
    return res


def run(c):
    quick = c.tier == "quick"
    n_rel = int((400 if quick else 20000) * c.scale)
    n_asan = int((60 if quick else 2000) * c.scale)
    per = 8
    B.build([("rel", "texel"), ("asan", "texel"), ("rel", "refchess-cli"), ("rel", "posgen-cli")])
    core.ensure_nets(NETS)
    fens = gen_positions(c.seed, 3000 if quick else 60000)
    # add forced special roots: mate / stalemate / single-move / hmc 99
    fens += ["7k/5Q2/6K1/8/8/8/8/8 b - - 0 1", "R6k/6pp/8/8/8/8/8/K7 b - - 0 1", "7k/8/6KP/8/8/8/8/8 b - - 0 1",
             "8/8/8/8/8/5k2/6p1/6K1 w - - 99 80", "6k1/8/6K1/8/8/8/8/R7 w - - 98 100", "k7/2Q5/1K6/8/8/8/8/8 b - - 5 9",
             "k7/P7/1K6/8/8/8/8/8 b - - 0 1", "8/8/8/8/8/1k6/p7/K7 w - - 0 1"]
    jobs = []
    for i in range(max(1, n_rel // per)):
        jobs.append(("rel", c.seed * 100000 + i, fens, per))
    for i in range(max(1, n_asan // per)):
        jobs.append(("asan", c.seed * 100000 + 50000 + i, fens, per))
    configs = set()
    tot = dict(searches=0, pv_lines=0, groups=0, slow=0)
    kinds = {}
    ntb = int((8 if quick else 300) * c.scale)
    def dispatch(j):
        return tb_session(j[1:]) if j[0] == "tb" else session(j)
    jobs += [("tb", c.seed * 100000 + 90000 + i) for i in range(ntb)]
    tb_lines = 0
    with concurrent.futures.ThreadPoolExecutor(max_workers=core.NCPU) as ex:
        for r in ex.map(dispatch, jobs):
            tb_lines += r.get("tbhits", 0)
            for kind, wit in r["viol"]:
                c.violation("uci-search-oracle", kind, wit)
            for rep in core.sanitizer_reports(r["stderr"]):
                c.violation("uci-search-asan", "sanitizer", core.report_key(rep), detail=rep["raw"])
            for k in tot:
                tot[k] += r.get(k, 0)
            for k, v in r["kinds"].items():
                kinds[k] = kinds.get(k, 0) + v
            configs |= r["configs"]
            for s in r["samples"]:
                c.sample(s)
    c.evaluations = tot["searches"]
    c.distinct = len([x for x in configs])
    c.rule = ("one case = one search: (position, limit, option vector, network); positions from posgen (games, tricky list, synthetic templates) "
              "plus forced mate/stalemate/single-move/half-move-clock-99 roots; 8 searches per engine process so hash, killer and history "
              "leftovers carry over; plus sessions in which an unlimited search on a <=4-men root leaves an on-demand tablebase resident and 5-men roots are then searched without limits "
              "(PVs extended through the tablebase); distinct_nontrivial = distinct (position, go command, options, network, searchmoves?, root class) tuples")
    c.extra.update(tb_resident_sessions=ntb, output_lines_with_tbhits_in_5men_searches=tb_lines, slow_searches_stopped_by_watchdog=tot["slow"], pv_lines_checked=tot["pv_lines"], multipv_groups_checked=tot["groups"], limit_kinds=kinds,
                   roots_without_legal_moves=len([x for x in configs if x[5] == "nolegal"]),
                   roots_single_move=len([x for x in configs if x[5] == "single"]),
                   searches_with_searchmoves=len([x for x in configs if x[4]]), exhaustive=False)
    c.assumptions += ["refchess decides legality; grammar regexes in vlib/uci.py define 'well-formed'"]
    if tot["pv_lines"] == 0:
        raise core.HarnessError("no PV lines observed")
