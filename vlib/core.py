"""Check driver core: process running, harness protocol parsing, sanitizer report digestion,
known-findings matching, evidence writing and the exit-code contract.

Exit codes of a check: 0 held on everything explored (KNOWN-FINDING lines allowed),
1 violation (a line `VIOLATION property=<id> replay=<path>` is printed), 2 harness failure.
"""
import concurrent.futures
import hashlib
import json
import os
import re
import subprocess
import sys
import time

from . import build as B

VERIF = B.VERIF
EVID = os.path.join(VERIF, "evidence")
REPLAY = os.path.join(VERIF, "replay")
TMP = os.path.join(B.BUILD, "tmp")
NETS = os.path.join(B.BUILD, "nets")
FINDINGS_FILE = os.path.join(VERIF, "known_findings.json")

NCPU = os.cpu_count() or 8

SAN_ENV = {
    "ASAN_OPTIONS": "detect_leaks=0:abort_on_error=0:halt_on_error=1:detect_stack_use_after_return=0:allocator_may_return_null=1",
    "UBSAN_OPTIONS": "print_stacktrace=1:halt_on_error=1",
}


class HarnessError(Exception):
    pass


def ensure_nets(kinds=("material_1",)):
    """Generate the synthetic networks that are missing (needs rel/netgen)."""
    os.makedirs(NETS, exist_ok=True)
    missing = [k for k in kinds if not os.path.exists(os.path.join(NETS, k + ".compr"))]
    if not missing:
        return
    B.build([("rel", "netgen")])
    for k in missing:
        kind, seed = k.rsplit("_", 1)
        p = subprocess.run([B.exe("rel", "netgen"), kind, seed, os.path.join(NETS, k + ".compr")],
                           stdout=subprocess.PIPE, stderr=subprocess.STDOUT, text=True)
        if p.returncode != 0:
            raise HarnessError("netgen failed: " + p.stdout)


def net_path(name):
    return os.path.join(NETS, name + ".compr")


# ---------------------------------------------------------------------------------------------
# sanitizer report digestion

_FRAME = re.compile(r"^\s*#\d+ 0x[0-9a-f]+ in (.+?) (/[^\s:]+)(?::(\d+))?")


def sanitizer_reports(text):
    """Return list of dicts(kind, msg, frames[[func,file,line]...]) found in stderr text."""
    out = []
    lines = text.splitlines()
    i = 0
    while i < len(lines):
        l = lines[i]
        m = None
        kind = None
        if "runtime error:" in l:
            kind = "ubsan"
            m = l.split("runtime error:", 1)[1].strip()
            loc = l.split(": runtime error:")[0].strip()
            m = re.sub(r"0x[0-9a-f]+", "ADDR", m)
            m = re.sub(r"-?\d{4,}", "N", m)
            m = loc.rsplit(":", 1)[0] + ": " + m if ":" in loc else m
        elif "ERROR: AddressSanitizer" in l:
            kind = "asan"
            m = l.split("ERROR: AddressSanitizer:", 1)[1].strip().split(" on address")[0].split(" on unknown")[0]
            m = re.sub(r"0x[0-9a-f]+", "ADDR", m)
        elif "WARNING: ThreadSanitizer" in l:
            kind = "tsan"
            m = l.split("ThreadSanitizer:", 1)[1].strip()
            m = re.sub(r"\(pid=\d+\)", "", m).strip()
        elif "Assertion `" in l and "failed" in l:
            kind = "assert"
            m = re.sub(r"^.*?: ", "", l, count=1)
        elif "terminate called" in l:
            kind = "terminate"
            m = l.strip()
            if i + 1 < len(lines) and "what()" in lines[i + 1]:
                m += " " + lines[i + 1].strip()
        if kind is None:
            i += 1
            continue
        frames = []
        j = i + 1
        while j < len(lines) and len(frames) < 40:
            fm = _FRAME.match(lines[j])
            if fm:
                frames.append([fm.group(1), fm.group(2), fm.group(3)])
            elif kind != "tsan" and lines[j].strip() == "" and frames:
                break
            elif kind == "tsan" and lines[j].startswith("=================="):
                break
            elif "SUMMARY:" in lines[j]:
                break
            j += 1
        out.append(dict(kind=kind, msg=m, frames=frames, raw="\n".join(lines[i:min(j + 1, i + 60)])))
        i = max(j, i + 1)
    return out


def report_key(rep):
    """Normalised identity of a sanitizer report: kind, message class, first frames in repo code
    (function names without arguments, no line numbers)."""
    fr = []
    for func, path, line in rep["frames"]:
        if "/repo/" in path or path.startswith(B.REPO):
            f = re.sub(r"\(.*$", "", func)
            fr.append(f + "@" + os.path.basename(path))
        if len(fr) >= 2:
            break
    return "%s:%s:%s" % (rep["kind"], rep["msg"], ">".join(fr))


# ---------------------------------------------------------------------------------------------
# running harness processes

class ProcResult:
    def __init__(self):
        self.rc = None
        self.timeout = False
        self.stats = {}
        self.viols = []     # (kind, witness)
        self.samples = []
        self.stderr = ""
        self.stdout = ""
        self.crumb = None
        self.reports = []
        self.cmd = None
        self.wall = 0.0


def run_proc(cmd, env=None, timeout=600, stdin_data=None, cwd=None):
    r = ProcResult()
    r.cmd = cmd
    e = dict(os.environ)
    e.update(SAN_ENV)
    e.setdefault("VERIF_NET", net_path("material_1"))
    if env:
        e.update(env)
    t0 = time.time()
    try:
        p = subprocess.run(cmd, env=e, input=stdin_data, stdout=subprocess.PIPE, stderr=subprocess.PIPE,
                           timeout=timeout, cwd=cwd, text=True, errors="replace")
        r.rc = p.returncode
        r.stdout, r.stderr = p.stdout, p.stderr
    except subprocess.TimeoutExpired as ex:
        r.timeout = True
        r.stdout = (ex.stdout or b"").decode("utf-8", "replace") if isinstance(ex.stdout, bytes) else (ex.stdout or "")
        r.stderr = (ex.stderr or b"").decode("utf-8", "replace") if isinstance(ex.stderr, bytes) else (ex.stderr or "")
    r.wall = time.time() - t0
    for l in r.stdout.splitlines():
        if l.startswith("STAT "):
            _, k, v = l.split(" ", 2)
            try:
                r.stats[k] = r.stats.get(k, 0) + int(v)
            except ValueError:
                pass
        elif l.startswith("VIOL "):
            body = l[5:]
            kind, _, wit = body.partition(" | ")
            r.viols.append((kind.strip(), wit))
        elif l.startswith("SAMPLE "):
            r.samples.append(l[7:])
    m = re.search(r"^CRUMB (.*)$", r.stderr, re.M)
    if m:
        r.crumb = m.group(1)
    r.reports = sanitizer_reports(r.stderr)
    return r


def run_many(cmds, env=None, timeout=900, jobs=None):
    """cmds: list of argv lists (or (argv, env) tuples). Runs them in parallel."""
    jobs = jobs or NCPU
    res = [None] * len(cmds)

    def one(i):
        c = cmds[i]
        e = env
        if isinstance(c, tuple):
            c, e2 = c
            e = dict(env or {})
            e.update(e2)
        return i, run_proc(c, env=e, timeout=timeout)

    with concurrent.futures.ThreadPoolExecutor(max_workers=jobs) as ex:
        for i, r in ex.map(one, range(len(cmds))):
            res[i] = r
    return res


MAX_STATS = ("max_", )


def merge_stats(results):
    tot = {}
    for r in results:
        for k, v in r.stats.items():
            if k.startswith(MAX_STATS):
                tot[k] = max(tot.get(k, 0), v)
            else:
                tot[k] = tot.get(k, 0) + v
    return tot


def count_distinct(files):
    """Union of the 64-bit hashes written by shards (exact distinct count across shards)."""
    seen = set()
    for f in files:
        try:
            with open(f, "rb") as fh:
                data = fh.read()
            for i in range(0, len(data) - 7, 8):
                seen.add(data[i:i + 8])
            os.unlink(f)
        except OSError:
            pass
    return len(seen)


# ---------------------------------------------------------------------------------------------
# findings

class Findings:
    def __init__(self):
        self.entries = []
        if os.path.exists(FINDINGS_FILE):
            with open(FINDINGS_FILE) as f:
                self.entries = json.load(f).get("findings", [])

    def match(self, prop, key):
        """Return the *open* finding entry that lists this violation key, else None."""
        for e in self.entries:
            if e.get("status") != "open" or e.get("property") != prop:
                continue
            pat = e.get("key_regex")
            if pat and re.search(pat, key):
                return e
        return None


# ---------------------------------------------------------------------------------------------
# the check context

class Check:
    def __init__(self, prop, tier, seed, level="exploration"):
        self.prop = prop
        self.tier = tier
        self.seed = seed
        self.level = level
        self.t0 = time.time()
        self.viol = []          # dict(key, kind, witness, detail)
        self.cov = {}
        self.samples = []
        self.assumptions = []
        self.inconclusive = []
        self.findings = Findings()
        self.evaluations = 0
        self.distinct = 0
        self.rule = ""
        self.extra = {}
        os.makedirs(EVID, exist_ok=True)
        os.makedirs(REPLAY, exist_ok=True)
        os.makedirs(TMP, exist_ok=True)

    # -- recording --------------------------------------------------------------------------
    def violation(self, check, kind, witness, detail="", replay_cmd=""):
        wkey = hashlib.sha1(witness.encode("utf-8", "replace")).hexdigest()[:10]
        key = "%s:%s:%s" % (check, kind, witness if len(witness) < 200 else wkey)
        self.viol.append(dict(key=key, check=check, kind=kind, witness=witness, detail=detail, replay_cmd=replay_cmd))

    def absorb(self, check, results, replay_fmt=None, expect_rc0=True):
        """Turn harness results into violations: VIOL lines, sanitizer reports, crashes, timeouts."""
        for r in results:
            cmdline = " ".join(r.cmd)
            for kind, wit in r.viols:
                self.violation(check, kind, wit, replay_cmd=cmdline)
            for rep in r.reports:
                wit = report_key(rep)
                self.violation(check, "sanitizer", wit, detail=(("crumb: %s\n" % r.crumb) if r.crumb else "") + rep["raw"], replay_cmd=cmdline)
            if r.timeout:
                self.inconclusive.append("timeout: " + cmdline)
            elif expect_rc0 and r.rc != 0 and not r.reports and not r.viols:
                if r.rc == 2:
                    raise HarnessError("harness error rc=2: %s\n%s" % (cmdline, r.stderr[-2000:]))
                self.violation(check, "crash", "rc=%s %s" % (r.rc, (r.crumb or "")[:150]),
                               detail=r.stderr[-3000:], replay_cmd=cmdline)
            for s in r.samples:
                if len(self.samples) < 8:
                    self.samples.append(s)

    def sample(self, s):
        if len(self.samples) < 8:
            self.samples.append(s)

    # -- finishing --------------------------------------------------------------------------
    def finish(self):
        wall = time.time() - self.t0
        known, new = [], []
        seen = set()
        for v in self.viol:
            if v["key"] in seen:
                continue
            seen.add(v["key"])
            e = self.findings.match(self.prop, v["key"])
            (known if e else new).append((v, e))
        cov = dict(self.cov)
        cov.update(dict(evaluations=int(self.evaluations), distinct_nontrivial=int(self.distinct),
                        rule=self.rule, samples=self.samples[:8] or ["(none)"]))
        cov.update(self.extra)
        if self.inconclusive:
            cov["inconclusive"] = self.inconclusive[:10]
        cov["known_findings_seen"] = [e["id"] for _, e in known]
        ev = dict(property_id=self.prop, tier=self.tier, seed=int(self.seed), level=self.level,
                  coverage=cov, assumptions=self.assumptions, wall_s=round(wall, 2),
                  violations=len(new))
        with open(os.path.join(EVID, self.prop + ".json"), "w") as f:
            json.dump(ev, f, indent=1, sort_keys=True)
            f.write("\n")
        printed = set()
        for v, e in known:
            if e["id"] not in printed:
                printed.add(e["id"])
                print("KNOWN-FINDING: property=%s %s (%s)" % (self.prop, e["what"], e["id"]))
        rc = 0
        for n, (v, _) in enumerate(new):
            path = os.path.join(REPLAY, "%s_%s_%d_%d.txt" % (self.prop, self.tier, self.seed, n))
            with open(path, "w") as f:
                f.write("property: %s\ncheck: %s\nkind: %s\nkey: %s\nwitness: %s\nreplay: %s\n\n%s\n" % (
                    self.prop, v["check"], v["kind"], v["key"], v["witness"], v["replay_cmd"], v["detail"]))
            print("VIOLATION property=%s replay=%s" % (self.prop, path))
            print("  [%s/%s] %s" % (v["check"], v["kind"], v["witness"][:300]))
            rc = 1
            if n >= 9:
                break
        print("%s %s seed=%d: evaluations=%d distinct_nontrivial=%d violations=%d known=%d inconclusive=%d wall=%.1fs" % (
            self.prop, self.tier, self.seed, self.evaluations, self.distinct, len(new), len(known), len(self.inconclusive), wall))
        if rc == 0 and self.evaluations <= 0:
            print("harness failure: observed nothing", file=sys.stderr)
            return 2
        if rc == 0 and self.inconclusive and len(self.inconclusive) > self.extra.get("inconclusive_allowed", 0):
            print("inconclusive: %s" % self.inconclusive[:3], file=sys.stderr)
            return 2
        return rc
