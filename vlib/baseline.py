"""Runs the repository's own build and test suite with the hook guard OFF (plain CMake build,
which never defines TEXEL_VERIF) and compares with /root/.vp/BASELINE.json stable_pass."""
import json
import os
import subprocess
import sys
import xml.etree.ElementTree as ET

REPO = "/repo"
BDIR = os.path.join(REPO, "_build")


def main():
    junit = os.path.join(BDIR, "verif_baseline.junit.xml")
    r = subprocess.run(["cmake", "-S", REPO, "-B", BDIR, "-G", "Ninja"], stdout=subprocess.PIPE, stderr=subprocess.STDOUT, text=True)
    if r.returncode != 0:
        print(r.stdout[-3000:]); return 2
    r = subprocess.run(["cmake", "--build", BDIR], stdout=subprocess.PIPE, stderr=subprocess.STDOUT, text=True)
    if r.returncode != 0:
        print(r.stdout[-5000:]); return 2
    if os.path.exists(junit):
        os.unlink(junit)
    subprocess.run(["ctest", "--test-dir", BDIR, "-j8", "--timeout", "900", "--output-junit", junit],
                   stdout=subprocess.PIPE, stderr=subprocess.STDOUT, text=True)
    passed = set()
    for tc in ET.parse(junit).getroot().iter("testcase"):
        ok = tc.get("status") in ("run", "passed") and tc.find("failure") is None and tc.find("error") is None
        if ok:
            passed.add(tc.get("name"))
    want = set()
    base = "/root/.vp/BASELINE.json"
    if os.path.exists(base):
        for t in json.load(open(base))["stable_pass"]:
            name = t.split("::")[0]
            if "." in name:
                want.add(name)
    missing = sorted(want - passed)
    print("baseline (guard off): %d tests passed, %d of %d stable tests missing" % (len(passed), len(missing), len(want)))
    for m in missing:
        print("  MISSING " + m)
    return 1 if missing else 0


if __name__ == "__main__":
    sys.exit(main())
