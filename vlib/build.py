"""Build driver: generates one ninja file that compiles /repo's sources in place
(per variant) plus the harnesses in /verif/src, and runs ninja under a lock.

Nothing is copied out of /repo; objects land in /verif/build/<variant>/.
"""
import fcntl
import glob
import os
import subprocess
import sys
import time

VERIF = os.path.dirname(os.path.dirname(os.path.abspath(__file__)))
REPO = os.environ.get("VERIF_REPO", "/repo")
BUILD = os.path.join(VERIF, "build")
SRC = os.path.join(VERIF, "src")

GUARD = "TEXEL_VERIF"

WARN = "-Wall -Wno-misleading-indentation -Wno-unused-result -Wno-psabi -Wno-unused-function"
COMMON = "-fno-stack-protector -pthread -D%s" % GUARD

SAN = ("-fsanitize=address,undefined -fno-sanitize-recover=all -fno-omit-frame-pointer "
       "-D_GLIBCXX_ASSERTIONS")

VARIANTS = {
    # name: (cxx, cc, cflags, ldflags)
    "rel": ("g++", "gcc", "-O3 -g1", ""),   # -O3 as the repository's CMake does ("Use -O3 instead of -O2")
    "asan": ("g++", "gcc", "-O1 -g " + SAN, "-fsanitize=address,undefined"),
    "tsan": ("g++", "gcc", "-O1 -g -fsanitize=thread", "-fsanitize=thread"),
    "ssse3": ("g++", "gcc", "-O3 -g1 -mssse3 -DUSE_SSSE3", ""),
    "avx2": ("g++", "gcc", "-O3 -g1 -mssse3 -mavx2 -DUSE_SSSE3 -DUSE_AVX2", ""),
    "avx512": ("g++", "gcc",
               "-O3 -g1 -mssse3 -mavx2 -mavx512f -mavx512bw -mavx512vnni "
               "-DUSE_SSSE3 -DUSE_AVX2 -DUSE_AVX512", ""),
    "fuzz": ("clang++-14", "clang-14",
             "-O1 -g -fsanitize=fuzzer-no-link,address,undefined -fno-sanitize-recover=all "
             "-fno-sanitize=object-size -fno-omit-frame-pointer", "-fsanitize=fuzzer,address,undefined"),
}

TEXELLIB = os.path.join(REPO, "lib/texellib")
UTILLIB = os.path.join(REPO, "lib/texelutillib")

INC_TEXELLIB = [TEXELLIB] + [os.path.join(TEXELLIB, d) for d in
                             ("book", "debug", "hw", "nn", "tb", "util")]
INC_GTB = [os.path.join(TEXELLIB, d) for d in
           ("tb/gtb/sysport", "tb/gtb/compression", "tb/gtb/compression/lzma")]
INC_UTILLIB = [UTILLIB, os.path.join(UTILLIB, "pg")]
INC_APPS = [os.path.join(REPO, "app/texel"), os.path.join(REPO, "app/texelutil")]

# harness name -> dict(src=[...], libs=[texellib|utillib|apptexel|apputil], extra ld, variants)
HARNESSES = {}


def harness(name, srcs, libs, variants=("rel", "asan"), ld="", cflags=""):
    HARNESSES[name] = dict(srcs=srcs, libs=libs, variants=variants, ld=ld, cflags=cflags)


# Declared harnesses (sources relative to /verif/src). netload.cpp supplies gNNData*.
harness("netgen", ["common/netgen.cpp"], ["texellib"], variants=("rel",))
harness("texel", ["common/netload.cpp"], ["apptexel", "texellib"],
        variants=("rel", "asan", "tsan"))
harness("texelutil", ["common/netload.cpp"], ["apputil", "utillib", "texellib"],
        variants=("rel", "asan", "tsan"), ld="-lgsl -lgslcblas")
harness("refchess-cli", ["common/refchess.cpp", "common/refchess_cli.cpp"], [],
        variants=("rel",))
harness("posgen-cli", ["common/refchess.cpp", "common/vposgen.cpp", "common/posgen_cli.cpp"], [],
        variants=("rel",))
harness("h_rules", ["common/netload.cpp", "common/refchess.cpp", "common/vposgen.cpp", "h_rules.cpp"],
        ["texellib"])
harness("h_eval", ["common/netload.cpp", "common/refchess.cpp", "common/vposgen.cpp", "h_eval.cpp"],
        ["texellib"], variants=("rel", "asan", "ssse3", "avx2", "avx512"))
harness("h_tt", ["common/netload.cpp", "h_tt.cpp"], ["texellib"], variants=("rel", "asan", "tsan"))
harness("h_tb", ["common/netload.cpp", "common/refchess.cpp", "h_tb.cpp"], ["texellib"])
harness("h_csp", ["common/netload.cpp", "h_csp.cpp"], ["utillib", "texellib"], ld="-lz3")
harness("h_rev", ["common/netload.cpp", "common/refchess.cpp", "common/vposgen.cpp", "h_rev.cpp"], ["utillib", "texellib"])
harness("h_pg", ["common/netload.cpp", "common/refchess.cpp", "common/vposgen.cpp", "h_pg.cpp"], ["utillib", "texellib"])
harness("h_pgn", ["common/netload.cpp", "common/refchess.cpp", "common/vposgen.cpp", "h_pgn.cpp"], ["utillib", "texellib"])
harness("h_bb", ["common/netload.cpp", "common/refchess.cpp", "common/vposgen.cpp", "h_bb.cpp"], ["utillib", "texellib"])
harness("h_book", ["common/netload.cpp", "common/refchess.cpp", "common/vposgen.cpp", "h_book.cpp"],
        ["texellib"])
harness("h_game", ["common/netload.cpp", "common/refchess.cpp", "common/vposgen.cpp", "h_game.cpp"],
        ["texellib"])
harness("h_cos", ["common/netload.cpp", "common/cosched.cpp", "h_cos.cpp"],
        ["apptexel_nomain", "texellib"], variants=("rel",),
        ld="-rdynamic -static-libstdc++ -ldl")
harness("h_fuzz", ["common/netload.cpp", "h_fuzz.cpp"], ["utillib", "texellib"], variants=("fuzz",))


def _glob(base, pats):
    out = []
    for p in pats:
        out += glob.glob(os.path.join(base, p))
    return sorted(out)


def repo_sources():
    s = {}
    cpp = _glob(TEXELLIB, ["*.cpp", "book/*.cpp", "debug/*.cpp", "hw/*.cpp", "nn/*.cpp",
                           "tb/*.cpp", "tb/syzygy/*.cpp", "util/*.cpp"])
    gtb = [os.path.join(TEXELLIB, p) for p in (
        "tb/gtb/compression/lzma/Lzma86Dec.c", "tb/gtb/compression/lzma/LzFind.c",
        "tb/gtb/compression/lzma/Lzma86Enc.c", "tb/gtb/compression/lzma/LzmaDec.c",
        "tb/gtb/compression/lzma/Alloc.c", "tb/gtb/compression/lzma/Bra86.c",
        "tb/gtb/compression/lzma/LzmaEnc.c", "tb/gtb/compression/wrap.c",
        "tb/gtb/gtb-dec.c", "tb/gtb/gtb-att.c", "tb/gtb/sysport/sysport.c",
        "tb/gtb/gtb-probe.c")]
    s["texellib"] = cpp + [g for g in gtb if os.path.exists(g)]
    s["utillib"] = _glob(UTILLIB, ["*.cpp", "pg/*.cpp"])
    app = _glob(os.path.join(REPO, "app/texel"), ["*.cpp"])
    s["apptexel"] = app
    s["apptexel_nomain"] = [a for a in app if not a.endswith("/texel.cpp")]
    s["apputil"] = _glob(os.path.join(REPO, "app/texelutil"), ["*.cpp"])
    return s


def _esc(p):
    return p.replace(" ", "$ ").replace(":", "$:")


def generate(variants=None, names=None):
    """Write build.ninja covering the requested variants (default: all)."""
    os.makedirs(BUILD, exist_ok=True)
    srcs = repo_sources()
    have_gsl = os.path.exists("/usr/include/gsl/gsl_blas.h")
    L = []
    L.append("ninja_required_version = 1.5")
    L.append("builddir = %s" % BUILD)
    L.append("rule cxx\n  command = $cxx -MMD -MF $out.d $flags -c $in -o $out\n"
             "  depfile = $out.d\n  deps = gcc\n  description = CXX $out")
    L.append("rule cc\n  command = $cc -MMD -MF $out.d $flags -c $in -o $out\n"
             "  depfile = $out.d\n  deps = gcc\n  description = CC $out")
    L.append("rule ar\n  command = rm -f $out && ar crs $out $in\n  description = AR $out")
    L.append("rule link\n  command = $cxx $in -o $out $ldflags\n  description = LINK $out")
    incs_lib = " ".join("-I" + i for i in INC_TEXELLIB)
    incs_gtb = " ".join("-I" + i for i in INC_GTB)
    incs_util = " ".join("-I" + i for i in INC_UTILLIB)
    incs_app = " ".join("-I" + i for i in INC_APPS)
    incs_src = "-I%s -I%s" % (os.path.join(SRC, "common"), SRC)
    for v, (cxx, cc, cf, ldf) in VARIANTS.items():
        if variants is not None and v not in variants:
            continue
        vdir = os.path.join(BUILD, v)
        libobjs = {}
        for lib, files in srcs.items():
            objs = []
            for f in files:
                rel = os.path.relpath(f, REPO).replace("/", "_")
                o = os.path.join(vdir, "obj", lib, rel + ".o")
                if lib == "apptexel_nomain":
                    o = os.path.join(vdir, "obj", "apptexel", rel + ".o")
                    objs.append(o)
                    continue
                if f.endswith(".c"):
                    flags = "%s %s -w %s %s -DHAS_RT" % (cf, COMMON, incs_lib, incs_gtb)
                    L.append("build %s: cc %s\n  cc = %s\n  flags = %s" % (_esc(o), _esc(f), cc, flags))
                else:
                    inc = incs_lib + " " + incs_gtb
                    defs = "-DHAS_RT"
                    if lib in ("utillib", "apputil"):
                        inc += " " + incs_util
                    if lib in ("apptexel", "apputil"):
                        inc += " " + incs_app
                    if lib == "apputil" and have_gsl:
                        defs += " -DUSE_GSL"
                    flags = "-std=c++11 %s %s %s %s %s" % (cf, WARN, COMMON, defs, inc)
                    L.append("build %s: cxx %s\n  cxx = %s\n  flags = %s" % (_esc(o), _esc(f), cxx, flags))
                objs.append(o)
            libobjs[lib] = objs
        for lib in ("texellib", "utillib"):
            a = os.path.join(vdir, "lib%s.a" % lib)
            L.append("build %s: ar %s" % (_esc(a), " ".join(_esc(o) for o in libobjs[lib])))
        for hname, h in HARNESSES.items():
            if v not in h["variants"]:
                continue
            if names is not None and hname not in names:
                continue
            if not all(os.path.exists(os.path.join(SRC, s)) for s in h["srcs"]):
                continue
            hobjs = []
            for s in h["srcs"]:
                f = os.path.join(SRC, s)
                o = os.path.join(vdir, "obj", "verif", s.replace("/", "_") + ".o")
                flags = "-std=gnu++17 %s %s %s -DHAS_RT %s %s %s %s %s" % (
                    cf, WARN, COMMON, incs_lib, incs_gtb, incs_util, incs_app, incs_src)
                if h["cflags"]:
                    flags += " " + h["cflags"]
                line = "build %s: cxx %s\n  cxx = %s\n  flags = %s" % (_esc(o), _esc(f), cxx, flags)
                if line not in L:
                    L.append(line)
                hobjs.append(o)
            ins = list(hobjs)
            ld = "%s -pthread -lrt %s" % (ldf, h["ld"])
            for lib in h["libs"]:
                if lib in ("texellib", "utillib"):
                    ins.append(os.path.join(vdir, "lib%s.a" % lib))
                else:
                    ins += libobjs[lib]
            exe = os.path.join(vdir, hname)
            L.append("build %s: link %s\n  cxx = %s\n  ldflags = %s" % (
                _esc(exe), " ".join(_esc(i) for i in ins), cxx, ld))
    text = "\n".join(L) + "\n"
    path = os.path.join(BUILD, "build.ninja")
    old = None
    if os.path.exists(path):
        with open(path) as f:
            old = f.read()
    if old != text:
        with open(path + ".tmp", "w") as f:
            f.write(text)
        os.replace(path + ".tmp", path)
    return path


def exe(variant, name):
    return os.path.join(BUILD, variant, name)


class BuildError(Exception):
    pass


def build(targets, quiet=True):
    """targets: list of (variant, harness-name). Incremental; serialised by flock."""
    os.makedirs(BUILD, exist_ok=True)
    lock = open(os.path.join(BUILD, ".lock"), "w")
    fcntl.flock(lock, fcntl.LOCK_EX)
    try:
        generate()
        paths = [exe(v, n) for v, n in targets]
        t0 = time.time()
        p = subprocess.run(["ninja", "-C", BUILD, "-j", str(os.cpu_count() or 8)] + paths,
                           stdout=subprocess.PIPE, stderr=subprocess.STDOUT, text=True)
        if p.returncode != 0:
            sys.stderr.write(p.stdout[-6000:])
            raise BuildError("ninja failed for %s" % (targets,))
        if not quiet:
            sys.stderr.write("[build] %s in %.1fs\n" % (targets, time.time() - t0))
        return paths
    finally:
        fcntl.flock(lock, fcntl.LOCK_UN)
        lock.close()


def all_targets():
    out = []
    for hname, h in HARNESSES.items():
        if not all(os.path.exists(os.path.join(SRC, s)) for s in h["srcs"]):
            continue
        for v in h["variants"]:
            out.append((v, hname))
    return out


if __name__ == "__main__":
    if len(sys.argv) > 1 and sys.argv[1] == "all":
        ts = [t for t in all_targets() if t[0] != "fuzz" or os.environ.get("VERIF_BUILD_FUZZ")]
        build(ts, quiet=False)
    else:
        ts = [tuple(a.split("/")) for a in sys.argv[1:]]
        build(ts, quiet=False)
