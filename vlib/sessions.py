"""Random UCI session generation, execution and the session-contract oracle (C05, reused by C09)."""
import random
import re
import time

from . import uci

FENS = [
    "rnbqkbnr/pppppppp/8/8/8/8/PPPPPPPP/RNBQKBNR w KQkq - 0 1",
    "r3k2r/p1ppqpb1/bn2pnp1/3PN3/1p2P3/2N2Q1p/PPPBBPPP/R3K2R w KQkq - 0 1",
    "8/2p5/3p4/KP5r/1R3p1k/8/4P1P1/8 w - - 0 1",
    "8/8/8/4k3/8/8/3Q4/K7 w - - 0 1",
    "7k/5Q2/6K1/8/8/8/8/8 b - - 0 1",
    "4k3/8/8/8/8/8/8/4K2R w K - 0 1",
    "8/8/8/8/8/5k2/6p1/6K1 w - - 99 80",
    "k7/8/K7/8/8/8/8/8 w - - 0 1",
    "q7/8/8/8/k2p3R/8/4P3/4K3 w - - 0 1",
    "r1bqkbnr/pppp1ppp/2n5/4p3/4P3/5N2/PPPP1PPP/RNBQKB1R w KQkq - 2 3",
    "8/8/8/4k3/8/8/3Q4/K6r w - - 0 1",
    "R6k/6pp/8/8/8/8/8/K7 b - - 0 1",
]
START_MOVES = ["e2e4", "e7e5", "g1f3", "b8c6", "f1b5", "a7a6", "b5a4", "g8f6", "e1g1", "f8e7"]

OPTIONS = [
    ("Hash", [1, 2, 4, 16, 64, 128, 0, -5, 99999999999, "abc", ""]),
    ("Threads", [1, 2, 3, 4, 8, 0, -1, 100000]),
    ("MultiPV", [1, 2, 3, 5, 256, 0, 300]),
    ("Ponder", ["true", "false", "maybe"]),
    ("UCI_AnalyseMode", ["true", "false"]),
    ("OwnBook", ["true", "false"]),
    ("BookFile", ["", "/nonexistent/book.bin", "/verif", "<empty>"]),
    ("UseNullMove", ["true", "false"]),
    ("AnalysisAgeHash", ["true", "false"]),
    ("Clear Hash", [None]),
    ("Strength", [0, 1, 100, 500, 999, 1000, -1, 1001]),
    ("MaxNPS", [0, 1, 1000, 100000, 10000000, -3]),
    ("UCI_LimitStrength", ["true", "false"]),
    ("UCI_Elo", [-625, 0, 1500, 2900, -626, 5000]),
    ("Contempt", [-2000, -100, 0, 50, 2000, 2001]),
    ("AnalyzeContempt", [0, 30, -2000]),
    ("AutoContempt", ["true", "false"]),
    ("ContemptFile", ["", "/nonexistent", "/verif/src/contempt_sample.txt"]),
    ("UCI_Opponent", ["none none computer Foo", "GM 2800 human Someone", ""]),
    ("GaviotaTbPath", ["", "/nonexistent", "/verif"]),
    ("GaviotaTbCache", [1, 8, 0]),
    ("SyzygyPath", ["", "/nonexistent", "/verif"]),
    ("MinProbeDepth", [0, 1, 5, 100, 101]),
    ("MinProbeDepth6", [0, 1, 50]),
    ("MinProbeDepth6dtz", [0, 1]),
    ("MinProbeDepth7", [0, 12]),
    ("MinProbeDepth7dtz", [0, 12]),
    ("BufferTime", [1, 1000, 10000, 0, 20000]),
    ("UCI_EngineAbout", ["x"]),
    ("Bogus Option", [1, "x y z"]),
]


def gen_go(rnd, short=True):
    k = rnd.choice(["depth", "depth", "nodes", "movetime", "clock", "mate", "infinite", "ponder", "ponderlimited", "empty"])
    if k == "depth":
        s = "go depth %d" % rnd.randint(1, 6 if short else 9)
    elif k == "nodes":
        s = "go nodes %d" % rnd.choice([1, 10, 1000, 20000])
    elif k == "movetime":
        s = "go movetime %d" % rnd.choice([1, 10, 50, 200])
    elif k == "clock":
        s = "go wtime %d btime %d winc %d binc %d" % (rnd.choice([1, 50, 1000, 5000]), rnd.choice([1, 50, 1000, 5000]),
                                                      rnd.choice([0, 10]), rnd.choice([0, 10]))
        if rnd.random() < .5:
            s += " movestogo %d" % rnd.choice([0, 1, 5, 40])
    elif k == "mate":
        s = "go mate %d" % rnd.randint(1, 3)
    elif k == "infinite":
        s = "go infinite"
    elif k == "ponder":
        s = "go ponder wtime %d btime %d" % (rnd.choice([100, 1000]), rnd.choice([100, 1000]))
    elif k == "ponderlimited":
        s = "go ponder " + rnd.choice(["depth 4", "nodes 500", "movetime 20", ""])
    else:
        s = "go"
    if rnd.random() < .2:
        s += " searchmoves " + " ".join(rnd.sample(["e2e4", "d2d4", "a1b1", "d2d8", "e1g1", "h8h7", "g1h1", "b1c3"], rnd.randint(1, 3)))
    return s.strip()


def gen_session(rnd, maxlen=60, threads_bias=False):
    """Returns a list of (command, delay_after) where delay_after is seconds, or 'best' = wait for
    the pending bestmove (bounded), and the way the session ends ('quit' or 'eof')."""
    n = rnd.randint(3, maxlen)
    cmds = []
    for _ in range(n):
        r = rnd.random()
        if r < .06:
            c = "uci"
        elif r < .20:
            c = "isready"
        elif r < .36:
            name, vals = rnd.choice(OPTIONS)
            if threads_bias and rnd.random() < .4:
                name, vals = "Threads", [2, 3, 4, 8, 1]
            v = rnd.choice(vals)
            c = "setoption name %s" % name + ("" if v is None else " value %s" % v)
        elif r < .41:
            c = "ucinewgame"
        elif r < .55:
            if rnd.random() < .35:
                k = rnd.randint(0, len(START_MOVES))
                c = "position startpos" + (" moves " + " ".join(START_MOVES[:k]) if k else "")
            else:
                c = "position fen " + rnd.choice(FENS)
        elif r < .76:
            c = gen_go(rnd)
        elif r < .86:
            c = "stop"
        elif r < .91:
            c = "ponderhit"
        elif r < .95:
            c = rnd.choice(["", "   ", "foo bar", "position", "setoption", "go depth", "position fen", "setoption name",
                            "position fen 8/8/8/8 w", "debug on", "register later", "xyzzy 1 2 3", "\t"])
        else:
            c = "isready"
        d = rnd.choice([0, 0, 0, 0, 0.001, 0.005, 0.02, 0.1, "best"])
        cmds.append((c, d))
    end = "quit" if rnd.random() < .7 else "eof"
    return cmds, end


_LIMIT = re.compile(r"\b(depth|nodes|mate|movetime|wtime|btime)\s+(-?\d+)")


def go_props(cmd):
    toks = cmd.split()
    ponder = "ponder" in toks[1:]
    has_limit = False
    if "infinite" not in toks:
        for name, val in _LIMIT.findall(cmd):
            try:
                v = int(val)
            except ValueError:
                continue
            if name in ("wtime", "btime"):
                if v != 0 and abs(v) < 2 ** 31:
                    has_limit = True
            elif 0 < v < 2 ** 31:
                has_limit = True
    return ponder, has_limit


def run_session(variant, net, cmds, end, exit_timeout=60.0, best_wait=8.0, extra_env=None):
    eng = uci.Engine(variant, net, extra_env=extra_env)
    pending = 0
    for c, d in cmds:
        tok = c.split()
        nb_before = None
        if tok and tok[0] == "go":
            pending += 1
        eng.send(c)
        if d == "best":
            # wait (bounded) until all searches so far have answered
            want = sum(1 for _, s, _ in eng.sent if s.split()[:1] == ["go"])
            t_end = time.time() + best_wait
            while time.time() < t_end:
                with eng.cv:
                    have = sum(1 for _, l in eng.lines if l.startswith("bestmove"))
                    if have >= want or eng.eof:
                        break
                    eng.cv.wait(0.05)
        elif d:
            time.sleep(d)
    rc = eng.close(end, timeout=exit_timeout)
    return eng, rc


SEARCH_OUTPUT = ("depth", "currmove", "pv", "stats")


def judge(eng, rc, end):
    """The session contract. Returns list of (kind, detail)."""
    v = []
    sent = eng.sent
    lines = eng.lines
    n_go = n_ready = 0
    go_events = []          # (send time, cmd)
    release = []            # send times of stop/go/quit per index
    for t, c, _ in sent:
        tok = c.split()
        if not tok:
            continue
        if tok[0] == "go":
            go_events.append((t, c))
        elif tok[0] == "isready":
            n_ready += 1
    bests = []
    n_readyok = 0
    for idx, (t, l) in enumerate(lines):
        kind, m = uci.classify(l)
        if kind is None:
            v.append(("malformed-line", repr(l[:300])))
            continue
        if kind == "bestmove":
            bests.append((t, idx))
        elif kind == "readyok":
            n_readyok += 1
    if rc is None:
        v.append(("hang-at-exit", "process did not exit after %s" % end))
    elif rc != 0:
        v.append(("exit-status", "rc=%s after %s" % (rc, end)))
    if rc == 0:
        if n_readyok != n_ready:
            v.append(("readyok-count", "isready=%d readyok=%d" % (n_ready, n_readyok)))
        if len(bests) != len(go_events):
            v.append(("bestmove-count", "go=%d bestmove=%d" % (len(go_events), len(bests))))
    elif len(bests) > len(go_events) or n_readyok > n_ready:
        v.append(("extra-answers", "go=%d bestmove=%d isready=%d readyok=%d" % (len(go_events), len(bests), n_ready, n_readyok)))
    t_end_cmd = sent[-1][0] if sent else 0
    for k, (tb, idx) in enumerate(bests[:len(go_events)]):
        tg, gc = go_events[k]
        if tb < tg:
            v.append(("bestmove-before-go", "bestmove #%d arrived before its go was sent" % (k + 1)))
        ponder, has_limit = go_props(gc)
        # commands after this go, up to the bestmove arrival
        rel = None
        hit = None
        for t, c, _ in sent:
            if t <= tg:
                continue
            tok = c.split()
            if not tok:
                continue
            if tok[0] in ("stop", "go", "quit"):
                rel = t if rel is None else min(rel, t)
            if tok[0] == "ponderhit" and hit is None:
                hit = t
        if end == "eof":
            teof = getattr(eng, "t_eof", None)
        needs_release = ponder or not has_limit
        if needs_release:
            cands = [x for x in (rel, (hit if (ponder and has_limit) else None)) if x is not None]
            first_rel = min(cands) if cands else None
            t_close = getattr(eng, "t_close", None)
            if first_rel is None and t_close is not None:
                first_rel = t_close
            if first_rel is not None and tb < first_rel:
                v.append(("bestmove-before-release", "bestmove #%d for '%s' arrived %.3fs before stop/ponderhit was sent" % (k + 1, gc, first_rel - tb)))
        # no search output after bestmove k until go k+1 is sent
        t_next = go_events[k + 1][0] if k + 1 < len(go_events) else float("inf")
        for t, l in lines[idx + 1:]:
            if t >= t_next:
                break
            kind, _ = uci.classify(l)
            if kind in SEARCH_OUTPUT:
                v.append(("search-output-after-bestmove", "after bestmove #%d: %s" % (k + 1, l[:200])))
                break
            if kind == "bestmove":
                break
    return v
