// Line-protocol front end to refchess for the python oracles.
// Every request is one line; every reply is one line.
//   selftest
//   legal <fen>                     -> "<n> m1 m2 ... | check=0/1"
//   apply <fen> | m1 m2 ...         -> "ok <fen>" or "illegal <index> <move>"
//   status <fen>                    -> "mate" | "stalemate" | "check" | "normal"  + " dead" if dead material
//   mate1 <fen>                     -> "<n> m1 m2 ..."
//   matesin <fen> | n nodes         -> "yes" | "no" | "abort"
//   lostin <fen> | n nodes          -> "yes" | "no" | "abort"
//   repkey <fen>                    -> key
//   perft <fen> | d                 -> n
#include "refchess.hpp"
#include <iostream>
#include <sstream>
using namespace ref;

int main() {
    std::ios::sync_with_stdio(false);
    std::string line;
    while (std::getline(std::cin, line)) {
        std::string cmd, rest, fen, args;
        size_t sp = line.find(' ');
        cmd = line.substr(0, sp);
        rest = sp == std::string::npos ? "" : line.substr(sp + 1);
        size_t bar = rest.find('|');
        fen = bar == std::string::npos ? rest : rest.substr(0, bar);
        args = bar == std::string::npos ? "" : rest.substr(bar + 1);
        std::ostringstream out;
        if (cmd == "selftest") {
            std::string r = selfTest();
            out << (r.empty() ? "ok" : "FAIL " + r);
        } else {
            Pos p;
            if (!parseFEN(fen, p)) { std::cout << "badfen" << std::endl; continue; }
            if (cmd == "legal") {
                std::vector<Mv> l; genLegal(p, l);
                out << l.size();
                for (auto& m : l) out << ' ' << mvStr(m);
                out << " | check=" << (inCheck(p) ? 1 : 0);
            } else if (cmd == "apply") {
                std::istringstream is(args); std::string ms; int i = 0; bool bad = false;
                while (is >> ms) {
                    Mv m;
                    if (!parseMv(ms, p.wtm, m) || !isLegal(p, m)) { out << "illegal " << i << ' ' << ms; bad = true; break; }
                    p = make(p, m); i++;
                }
                if (!bad) out << "ok " << toFEN(p);
            } else if (cmd == "status") {
                std::vector<Mv> l; genLegal(p, l);
                bool chk = inCheck(p);
                out << (l.empty() ? (chk ? "mate" : "stalemate") : (chk ? "check" : "normal"));
                if (deadMaterial(p)) out << " dead";
            } else if (cmd == "mate1") {
                std::vector<Mv> l; mateIn1Moves(p, l);
                out << l.size();
                for (auto& m : l) out << ' ' << mvStr(m);
            } else if (cmd == "matesin" || cmd == "lostin") {
                std::istringstream is(args); int n = 1; int64_t nodes = 1000000; is >> n >> nodes;
                bool r = cmd == "matesin" ? matesIn(p, n, nodes) : lostIn(p, n, nodes);
                out << (nodes < 0 ? "abort" : r ? "yes" : "no");
            } else if (cmd == "repkey") {
                out << repKey(p);
            } else if (cmd == "perft") {
                int d = atoi(args.c_str());
                out << perft(p, d);
            } else out << "badcmd";
        }
        std::cout << out.str() << std::endl;
    }
    return 0;
}
