// cosched: cooperative deterministic scheduler. The harness executable DEFINES the pthread primitives
// (executable symbols interpose libc's; libstdc++ is linked statically and the executable is linked
// with -rdynamic, so every std::thread / std::mutex / std::condition_variable / sleep_for of the engine
// lands here). Exactly one thread runs at a time; control changes hands only inside an intercepted call;
// the next thread is chosen by a seeded strategy; time is virtual.
#include <pthread.h>
#include <semaphore.h>
#include <dlfcn.h>
#include <time.h>
#include <unistd.h>
#include <errno.h>
#include <cstdio>
#include <cstdlib>
#include <cstring>
#include <cstdint>
#include <vector>
#include <map>
#include <string>
#include <functional>
#include <algorithm>
#include "cosched.hpp"

namespace {
typedef int (*create_t)(pthread_t*, const pthread_attr_t*, void*(*)(void*), void*);
typedef int (*join_t)(pthread_t, void**);
create_t real_create; join_t real_join;
int (*real_mlock)(pthread_mutex_t*); int (*real_munlock)(pthread_mutex_t*);
int (*real_clock_gettime)(clockid_t, struct timespec*);

enum St { RUN, B_MUTEX, B_CV, B_JOIN, B_SLEEP, B_STEPS, B_PRED, DONE };
const char* const stNames[] = { "runnable", "blocked-on-mutex", "waiting-on-condvar", "joining", "sleeping", "waiting-steps", "waiting-predicate", "finished" };
struct Th {
    int id; St st = RUN; sem_t sem; const void* obj = nullptr; int64_t until = 0; pthread_t pt;
    void*(*fn)(void*); void* arg; bool timedOut = false; std::function<bool()> pred; int64_t prio = 0;
    const void* cvMutex = nullptr;
};
std::vector<Th*> ths; bool enabled = false;
pthread_mutex_t G = PTHREAD_MUTEX_INITIALIZER;          // real mutex protecting scheduler state
std::map<const void*, Th*> mowner;                       // model: mutex -> owner
uint64_t rng = 88172645463325252ull;
int64_t vclock_ns = 1000000000LL;                        // virtual time starts at 1 s
int64_t steps = 0, events = 0, switches = 0, spurious = 0;
uint64_t schedHash = 1469598103934665603ull;
cosched::Options opt;
std::vector<int64_t> pctChangePoints;
std::function<void(const char*)> deadlockHandler;
thread_local Th* self = nullptr;

uint64_t rnd() { rng ^= rng << 13; rng ^= rng >> 7; rng ^= rng << 17; return rng * 0x2545F4914F6CDD1Dull; }

void G_lock() { real_mlock(&G); }
void G_unlock() { real_munlock(&G); }

std::string describe() {
    std::string s;
    char buf[200];
    for (Th* t : ths) {
        snprintf(buf, sizeof(buf), "thread %d: %s obj=%p; ", t->id, stNames[t->st], t->obj);
        s += buf;
    }
    return s;
}

[[noreturn]] void die(const char* msg) {
    std::string d = describe();
    fprintf(stderr, "COSCHED-DEADLOCK: %s | step %lld vtime_ms %lld | %s\n", msg, (long long)steps, (long long)(vclock_ns / 1000000), d.c_str());
    fflush(stderr);
    if (deadlockHandler) deadlockHandler(d.c_str());
    _exit(3);
}

bool runnable(Th* t) {
    switch (t->st) {
    case RUN: return true;
    case B_MUTEX: { auto it = mowner.find(t->obj); return it == mowner.end() || it->second == nullptr; }
    case B_SLEEP: return vclock_ns >= t->until;
    case B_STEPS: return steps >= t->until;
    case B_PRED: return t->pred();
    case B_CV: return t->until > 0 && vclock_ns >= t->until;
    default: return false;
    }
}

Th* choose(std::vector<Th*>& r) {
    if (opt.strategy == cosched::PCT) {
        // highest priority runs; at the change points the running thread drops below everybody.
        // Fairness: strict priorities would let a searching thread starve the protocol thread forever (an
        // unfair schedule no operating system produces), so one step in 16 is chosen uniformly at random.
        for (int64_t cp : pctChangePoints) if (cp == steps && self) { self->prio = -steps; }
        if ((rnd() & 15) == 0) return r[rnd() % r.size()];
        Th* best = r[0];
        for (Th* t : r) if (t->prio > best->prio) best = t;
        return best;
    }
    return r[rnd() % r.size()];
}

// Called with G held by the current thread. Picks the next thread and hands over. Returns (with G held)
// when the calling thread is scheduled again. With selfDone the calling thread never comes back.
void reschedule(bool selfDone = false) {
    steps++;
    if (opt.maxSteps > 0 && steps > opt.maxSteps) die("step limit exceeded (livelock?)");
    for (;;) {
        std::vector<Th*> r;
        for (Th* t : ths) if (t->st != DONE && runnable(t)) r.push_back(t);
        if (r.empty()) {
            // nothing runnable: advance virtual time to the earliest timed waiter, or the step counter
            int64_t bestT = INT64_MAX;
            for (Th* t : ths) {
                if (t->st == B_SLEEP && t->until < bestT) bestT = t->until;
                if (t->st == B_CV && t->until > 0 && t->until < bestT) bestT = t->until;
            }
            if (bestT != INT64_MAX) { vclock_ns = std::max(vclock_ns, bestT); continue; }
            int64_t bestS = INT64_MAX;
            for (Th* t : ths) if (t->st == B_STEPS && t->until < bestS) bestS = t->until;
            if (bestS != INT64_MAX) { steps = bestS; continue; }
            bool allDone = true; for (Th* t : ths) if (t->st != DONE) allDone = false;
            if (allDone) { G_unlock(); return; }
            die("no runnable thread");
        }
        Th* n = choose(r);
        if (n->st == B_CV) n->timedOut = true;
        n->st = RUN;
        Th* me = self;
        schedHash = (schedHash ^ (uint64_t)(n->id + 1)) * 1099511628211ull;
        if (n == me && !selfDone) return;
        switches++;
        sem_post(&n->sem);
        G_unlock();
        if (selfDone) return;
        while (sem_wait(&me->sem) != 0 && errno == EINTR) {}
        G_lock();
        return;
    }
}

void* tramp(void* p) {
    Th* t = (Th*)p; self = t;
    while (sem_wait(&t->sem) != 0 && errno == EINTR) {}     // parked until scheduled
    void* ret = t->fn(t->arg);
    G_lock();
    t->st = DONE;
    for (Th* o : ths) if (o->st == B_JOIN && o->obj == t) o->st = RUN;
    reschedule(true);
    return ret;
}

void init() {
    real_create = (create_t)dlsym(RTLD_NEXT, "pthread_create");
    real_join = (join_t)dlsym(RTLD_NEXT, "pthread_join");
    real_mlock = (int(*)(pthread_mutex_t*))dlsym(RTLD_NEXT, "pthread_mutex_lock");
    real_munlock = (int(*)(pthread_mutex_t*))dlsym(RTLD_NEXT, "pthread_mutex_unlock");
    real_clock_gettime = (int(*)(clockid_t, struct timespec*))dlsym(RTLD_NEXT, "clock_gettime");
}
struct Init { Init() { init(); } } initObj __attribute__((init_priority(101)));

void lockModel(const void* m) {     // G held
    reschedule();                   // scheduling point before acquiring
    for (;;) {
        auto it = mowner.find(m);
        if (it == mowner.end() || it->second == nullptr) break;
        self->st = B_MUTEX; self->obj = m; reschedule();
    }
    mowner[m] = self; self->obj = nullptr;
}
}

namespace cosched {
void enable(const Options& o) {
    if (!real_create) init();
    opt = o;
    rng = o.seed * 0x9E3779B97F4A7C15ull + 12345; if (!rng) rng = 1;
    for (int i = 0; i < 8; i++) rnd();
    Th* t = new Th; t->id = 0; sem_init(&t->sem, 0, 0); t->prio = (int64_t)(rnd() % 1000000) + 1000000; ths.push_back(t); self = t;
    pctChangePoints.clear();
    for (int i = 0; i < o.pctDepth; i++) pctChangePoints.push_back(1 + (int64_t)(rnd() % (uint64_t)std::max<int64_t>(1, o.pctHorizon)));
    enabled = true;
}
void disable() { enabled = false; }
int64_t nowNs() { return vclock_ns; }
void tick(int64_t ns) { vclock_ns += ns; }
int64_t stepCount() { return steps; }
int64_t eventCount() { return events; }
int64_t switchCount() { return switches; }
int64_t spuriousCount() { return spurious; }
uint64_t scheduleHash() { return schedHash; }
int threadId() { return self ? self->id : -1; }
int threadCount() { return (int)ths.size(); }
// thread is in a timed wait (sleep, or condition wait with a deadline); racy read is fine: only one thread runs at a time
bool threadBlocked(int id) { return id >= 0 && id < (int)ths.size() && (ths[id]->st == B_SLEEP || (ths[id]->st == B_CV && ths[id]->until > 0)); }
std::string threadStates() { G_lock(); std::string s = describe(); G_unlock(); return s; }
void setDeadlockHandler(std::function<void(const char*)> f) { deadlockHandler = f; }
void waitSteps(int64_t n) { G_lock(); self->st = B_STEPS; self->until = steps + n; reschedule(); G_unlock(); }
void waitPred(std::function<bool()> p) { G_lock(); if (!p()) { self->st = B_PRED; self->pred = p; reschedule(); } G_unlock(); }
static std::function<void()> wakeHandler;
void setWakeHandler(std::function<void()> f) { wakeHandler = f; }
void sleepNs(int64_t ns) { G_lock(); self->st = B_SLEEP; self->until = vclock_ns + ns; reschedule(); G_unlock(); if (wakeHandler) wakeHandler(); }
void yield() { G_lock(); reschedule(); G_unlock(); }
}

extern "C" {
int pthread_create(pthread_t* th, const pthread_attr_t* attr, void*(*fn)(void*), void* arg) {
    if (!real_create) init();
    if (!enabled) return real_create(th, attr, fn, arg);
    G_lock(); events++;
    Th* t = new Th; t->id = (int)ths.size(); sem_init(&t->sem, 0, 0); t->fn = fn; t->arg = arg;
    t->prio = (int64_t)(rnd() % 1000000) + 1000000;
    ths.push_back(t);
    int r = real_create(&t->pt, attr, tramp, t); *th = t->pt;
    reschedule(); G_unlock();
    return r;
}
int pthread_join(pthread_t pt, void** ret) {
    if (!enabled || !self) return real_join(pt, ret);
    G_lock(); events++;
    Th* t = nullptr; for (Th* o : ths) if (o->id != 0 && pthread_equal(o->pt, pt)) t = o;
    if (t && t->st != DONE) { self->st = B_JOIN; self->obj = t; reschedule(); self->obj = nullptr; }
    G_unlock();
    return real_join(pt, ret);
}
int pthread_mutex_lock(pthread_mutex_t* m) {
    if (!enabled || !self) return real_mlock ? real_mlock(m) : 0;
    G_lock(); events++;
    lockModel(m);
    G_unlock();
    return 0;
}
int pthread_mutex_trylock(pthread_mutex_t* m) {
    if (!enabled || !self) { static auto f = (int(*)(pthread_mutex_t*))dlsym(RTLD_NEXT, "pthread_mutex_trylock"); return f(m); }
    G_lock(); events++;
    int r = 0; auto it = mowner.find(m);
    if (it != mowner.end() && it->second != nullptr) r = EBUSY; else mowner[m] = self;
    G_unlock(); return r;
}
int pthread_mutex_unlock(pthread_mutex_t* m) {
    if (!enabled || !self) return real_munlock ? real_munlock(m) : 0;
    G_lock(); events++; mowner[m] = nullptr;
    if (opt.switchOnUnlock) reschedule();
    G_unlock();
    return 0;
}
static int cv_wait(pthread_cond_t* cv, pthread_mutex_t* m, int64_t deadline) {
    G_lock(); events++;
    // Scheduling point while the mutex is still held and the thread is not yet a waiter: a thread can be pre-empted right before it
    // calls pthread_cond_wait. Harmless for code that notifies under the mutex; a notifier that does not take the mutex can slip its
    // notification in here, where it is lost (the classic lost wake-up).
    reschedule();
    mowner[m] = nullptr;
    // a spurious wake-up is allowed by the specification of condition variables
    bool spur = opt.spuriousPermille > 0 && (int)(rnd() % 1000) < opt.spuriousPermille;
    if (spur) { spurious++; reschedule(); }
    else {
        self->st = B_CV; self->obj = cv; self->until = deadline; self->timedOut = false;
        reschedule();
    }
    bool to = !spur && self->timedOut; self->until = 0; self->timedOut = false;
    for (;;) {
        auto it = mowner.find(m);
        if (it == mowner.end() || it->second == nullptr) break;
        self->st = B_MUTEX; self->obj = m; reschedule();
    }
    mowner[m] = self; self->obj = nullptr;
    G_unlock();
    return to ? ETIMEDOUT : 0;
}
int pthread_cond_wait(pthread_cond_t* cv, pthread_mutex_t* m) {
    if (!enabled || !self) { static auto f = (int(*)(pthread_cond_t*, pthread_mutex_t*))dlsym(RTLD_NEXT, "pthread_cond_wait"); return f(cv, m); }
    return cv_wait(cv, m, 0);
}
int pthread_cond_timedwait(pthread_cond_t* cv, pthread_mutex_t* m, const struct timespec* ts) {
    if (!enabled || !self) { static auto f = (int(*)(pthread_cond_t*, pthread_mutex_t*, const struct timespec*))dlsym(RTLD_NEXT, "pthread_cond_timedwait"); return f(cv, m, ts); }
    int64_t dl = ts->tv_sec * 1000000000LL + ts->tv_nsec;      // absolute, in the (virtual) clock returned by clock_gettime below
    return cv_wait(cv, m, std::max<int64_t>(dl, 1));
}
int pthread_cond_clockwait(pthread_cond_t* cv, pthread_mutex_t* m, clockid_t, const struct timespec* ts) {
    return pthread_cond_timedwait(cv, m, ts);
}
static int cv_wake(pthread_cond_t* cv, bool all) {
    G_lock(); events++;
    if (all) { for (Th* t : ths) if (t->st == B_CV && t->obj == cv) t->st = RUN; }
    else {
        std::vector<Th*> w; for (Th* t : ths) if (t->st == B_CV && t->obj == cv) w.push_back(t);
        if (!w.empty()) w[rnd() % w.size()]->st = RUN;
    }
    reschedule();       // scheduling point right after a notification: the woken thread may run before the notifier's next statement
    G_unlock(); return 0;
}
int pthread_cond_signal(pthread_cond_t* cv) {
    if (!enabled || !self) { static auto f = (int(*)(pthread_cond_t*))dlsym(RTLD_NEXT, "pthread_cond_signal"); return f(cv); }
    return cv_wake(cv, false);
}
int pthread_cond_broadcast(pthread_cond_t* cv) {
    if (!enabled || !self) { static auto f = (int(*)(pthread_cond_t*))dlsym(RTLD_NEXT, "pthread_cond_broadcast"); return f(cv); }
    return cv_wake(cv, true);
}
int nanosleep(const struct timespec* req, struct timespec* rem) {
    if (!enabled || !self) { static auto f = (int(*)(const struct timespec*, struct timespec*))dlsym(RTLD_NEXT, "nanosleep"); return f(req, rem); }
    G_lock(); events++; self->st = B_SLEEP; self->until = vclock_ns + req->tv_sec * 1000000000LL + req->tv_nsec; reschedule(); G_unlock();
    if (cosched::wakeHandler) cosched::wakeHandler();
    return 0;
}
int clock_nanosleep(clockid_t, int flags, const struct timespec* req, struct timespec* rem) {
    if (!enabled || !self) { static auto f = (int(*)(clockid_t, int, const struct timespec*, struct timespec*))dlsym(RTLD_NEXT, "clock_nanosleep"); return f(CLOCK_MONOTONIC, flags, req, rem); }
    if (flags & TIMER_ABSTIME) {
        G_lock(); events++; self->st = B_SLEEP; self->until = req->tv_sec * 1000000000LL + req->tv_nsec; reschedule(); G_unlock();
        if (cosched::wakeHandler) cosched::wakeHandler();
        return 0;
    }
    return nanosleep(req, rem);
}
int sched_yield(void) {
    if (!enabled || !self) return 0;
    G_lock(); events++; reschedule(); G_unlock();
    return 0;
}
int clock_gettime(clockid_t c, struct timespec* ts) {
    if (!enabled || !self || (c != CLOCK_MONOTONIC && c != CLOCK_REALTIME)) {
        if (!real_clock_gettime) init();
        return real_clock_gettime(c, ts);
    }
    ts->tv_sec = vclock_ns / 1000000000LL; ts->tv_nsec = vclock_ns % 1000000000LL;
    return 0;
}
}
