// Seeded generators of positions and games; uses refchess only (no engine code).
#pragma once
#include "refchess.hpp"
#include <vector>
#include <string>

namespace posgen {

struct Rng {
    uint64_t s;
    explicit Rng(uint64_t seed = 1) { s = seed * 0x9E3779B97F4A7C15ull + 0x632BE59BD9B4E019ull; if (!s) s = 1; for (int i = 0; i < 8; i++) next(); }
    uint64_t next() { s ^= s << 13; s ^= s >> 7; s ^= s << 17; return s * 0x2545F4914F6CDD1Dull; }
    int below(int n) { return n <= 1 ? 0 : (int)(next() % (uint64_t)n); }
    int range(int lo, int hi) { return lo + below(hi - lo + 1); }
    bool chance(int pct) { return below(100) < pct; }
};

struct Game {
    std::vector<ref::Pos> pos;   // pos[0] = start, pos[i+1] = after moves[i]
    std::vector<ref::Mv> moves;
};

enum Style { UNIFORM = 0, TACTICAL = 1, STORM = 2, QUIET = 3 };

/** Random legal game; stops at mate/stalemate or maxPlies. */
Game randomGame(Rng& r, const ref::Pos& start, int maxPlies, Style st);
/** Pick one legal move with the style's bias. l must be non-empty. */
ref::Mv pickMove(Rng& r, const ref::Pos& p, const std::vector<ref::Mv>& l, Style st);

extern const std::vector<std::string>& trickyFens();
extern const std::vector<std::string>& stormFens();

enum Template { T_SPARSE = 0, T_DENSE, T_PIN, T_DOUBLECHECK, T_EPPIN, T_CASTLE, T_PROMO, T_DISCOVERED, T_NTEMPLATES };
extern const char* const templateNames[T_NTEMPLATES];
/** Synthetic placement. Always "plausible" (ref::plausible) with <=16 men per side and a
 *  promotion-consistent piece count. */
ref::Pos synthetic(Rng& r, int templ);
/** <=16 men/side, promotion-consistent, one king each, kings not adjacent. */
bool countsOk(const ref::Pos& p);

/** Non-capturing non-pawn move. */
bool reversible(const ref::Pos& p, const ref::Mv& m);
/** Four reversible, castling-right preserving moves a, b, a^-1, b^-1 that lead back to p. */
bool findCycle(Rng& r, const ref::Pos& p, ref::Mv out[4]);
/** A position and a double pawn push in it after which the e.p. square is pseudo-legal only
 *  (the capturing pawn is pinned along the rank): FIDE-identical to later occurrences. */
bool epPinnedPush(Rng& r, ref::Pos& before, ref::Mv& push);

/** Structural features measured with refchess (used for evidence: what was really produced). */
struct Features {
    bool inCheck = false, doubleCheck = false, pinned = false, epAvail = false, epPseudoOnly = false;
    bool castleAvail = false, castleBlockedByAttack = false, promoAvail = false;
};
Features features(const ref::Pos& p);

} // namespace posgen
