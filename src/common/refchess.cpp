#include "refchess.hpp"
#include <cstring>
#include <cstdlib>
#include <sstream>
#include <algorithm>

namespace ref {

const char* const startFEN = "rnbqkbnr/pppppppp/8/8/8/8/PPPPPPPP/RNBQKBNR w KQkq - 0 1";

Pos::Pos() { memset(b, 0, sizeof(b)); }

int Pos::kingSq(bool white) const {
    int k = white ? WK : BK;
    for (int s = 0; s < 64; s++) if (b[s] == k) return s;
    return -1;
}
int Pos::count(int piece) const { int n = 0; for (int s = 0; s < 64; s++) if (b[s] == piece) n++; return n; }
int Pos::nMen() const { int n = 0; for (int s = 0; s < 64; s++) if (b[s]) n++; return n; }

std::string sqName(int s) { std::string r; r += char('a' + fileOf(s)); r += char('1' + rankOf(s)); return r; }

std::string mvStr(const Mv& m) {
    std::string r = sqName(m.from) + sqName(m.to);
    if (m.promo) r += "kqrbnp"[kindOf(m.promo)];
    return r;
}

bool parseMv(const std::string& s, bool wtm, Mv& m) {
    if (s.size() < 4 || s.size() > 5) return false;
    auto okF = [](char c) { return c >= 'a' && c <= 'h'; };
    auto okR = [](char c) { return c >= '1' && c <= '8'; };
    if (!okF(s[0]) || !okR(s[1]) || !okF(s[2]) || !okR(s[3])) return false;
    m.from = sq(s[0] - 'a', s[1] - '1');
    m.to = sq(s[2] - 'a', s[3] - '1');
    m.promo = EMPTY;
    if (s.size() == 5) {
        int k;
        switch (s[4]) { case 'q': k = K_Q; break; case 'r': k = K_R; break; case 'b': k = K_B; break; case 'n': k = K_N; break; default: return false; }
        m.promo = (wtm ? WK : BK) + k;
    }
    return true;
}

static const char pieceChars[] = ".KQRBNPkqrbnp";

bool parseFEN(const std::string& fen, Pos& p) {
    p = Pos();
    std::istringstream is(fen);
    std::string board, side, cast, ep;
    if (!(is >> board >> side)) return false;
    if (!(is >> cast)) cast = "-";
    if (!(is >> ep)) ep = "-";
    int r = 7, f = 0;
    for (char c : board) {
        if (c == '/') { r--; f = 0; if (r < 0) return false; continue; }
        if (c >= '1' && c <= '8') { f += c - '0'; continue; }
        const char* q = strchr(pieceChars + 1, c);
        if (!q || f > 7) return false;
        p.b[sq(f, r)] = (int8_t)(q - pieceChars);
        f++;
    }
    if (side == "w") p.wtm = true; else if (side == "b") p.wtm = false; else return false;
    p.castle = 0;
    for (char c : cast) {
        if (c == 'K') p.castle |= CW_SHORT; else if (c == 'Q') p.castle |= CW_LONG;
        else if (c == 'k') p.castle |= CB_SHORT; else if (c == 'q') p.castle |= CB_LONG;
        else if (c != '-') return false;
    }
    p.ep = -1;
    if (ep != "-") {
        if (ep.size() != 2 || ep[0] < 'a' || ep[0] > 'h' || ep[1] < '1' || ep[1] > '8') return false;
        p.ep = sq(ep[0] - 'a', ep[1] - '1');
    }
    int h = 0, fm = 1;
    if (is >> h) { if (!(is >> fm)) fm = 1; }
    p.hmc = h; p.fullMove = fm;
    return true;
}

std::string toFEN(const Pos& p) {
    std::string s;
    for (int r = 7; r >= 0; r--) {
        int e = 0;
        for (int f = 0; f < 8; f++) {
            int pc = p.b[sq(f, r)];
            if (!pc) { e++; continue; }
            if (e) { s += char('0' + e); e = 0; }
            s += pieceChars[pc];
        }
        if (e) s += char('0' + e);
        if (r) s += '/';
    }
    s += p.wtm ? " w " : " b ";
    std::string c;
    if (p.castle & CW_SHORT) c += 'K';
    if (p.castle & CW_LONG) c += 'Q';
    if (p.castle & CB_SHORT) c += 'k';
    if (p.castle & CB_LONG) c += 'q';
    if (c.empty()) c = "-";
    s += c; s += ' ';
    s += p.ep >= 0 ? sqName(p.ep) : std::string("-");
    s += ' '; s += std::to_string(p.hmc); s += ' '; s += std::to_string(p.fullMove);
    return s;
}

static const int knightD[8][2] = {{1,2},{2,1},{2,-1},{1,-2},{-1,-2},{-2,-1},{-2,1},{-1,2}};
static const int kingD[8][2] = {{1,0},{1,1},{0,1},{-1,1},{-1,0},{-1,-1},{0,-1},{1,-1}};
static const int rookD[4][2] = {{1,0},{0,1},{-1,0},{0,-1}};
static const int bishD[4][2] = {{1,1},{-1,1},{-1,-1},{1,-1}};

static inline bool on(int f, int r) { return f >= 0 && f < 8 && r >= 0 && r < 8; }

bool attacked(const Pos& p, int s, bool byWhite) {
    int f = fileOf(s), r = rankOf(s);
    int N = byWhite ? WN : BN, Kg = byWhite ? WK : BK, P = byWhite ? WP : BP;
    int R = byWhite ? WR : BR, B = byWhite ? WB : BB, Q = byWhite ? WQ : BQ;
    for (auto& d : knightD) { int ff = f + d[0], rr = r + d[1]; if (on(ff, rr) && p.b[sq(ff, rr)] == N) return true; }
    for (auto& d : kingD) { int ff = f + d[0], rr = r + d[1]; if (on(ff, rr) && p.b[sq(ff, rr)] == Kg) return true; }
    // pawns: a white pawn on (f±1, r-1) attacks (f,r)
    int pr = byWhite ? r - 1 : r + 1;
    for (int df = -1; df <= 1; df += 2) { int ff = f + df; if (on(ff, pr) && p.b[sq(ff, pr)] == P) return true; }
    for (auto& d : rookD) {
        int ff = f + d[0], rr = r + d[1];
        while (on(ff, rr)) { int pc = p.b[sq(ff, rr)]; if (pc) { if (pc == R || pc == Q) return true; break; } ff += d[0]; rr += d[1]; }
    }
    for (auto& d : bishD) {
        int ff = f + d[0], rr = r + d[1];
        while (on(ff, rr)) { int pc = p.b[sq(ff, rr)]; if (pc) { if (pc == B || pc == Q) return true; break; } ff += d[0]; rr += d[1]; }
    }
    return false;
}

bool inCheck(const Pos& p) { int k = p.kingSq(p.wtm); return k >= 0 && attacked(p, k, !p.wtm); }
bool otherInCheck(const Pos& p) { int k = p.kingSq(!p.wtm); return k >= 0 && attacked(p, k, p.wtm); }

bool plausible(const Pos& p) {
    if (p.count(WK) != 1 || p.count(BK) != 1) return false;
    for (int f = 0; f < 8; f++) {
        int a = p.b[sq(f, 0)], c = p.b[sq(f, 7)];
        if (a == WP || a == BP || c == WP || c == BP) return false;
    }
    return !otherInCheck(p);
}

static void addPawnMove(const Pos& p, int from, int to, std::vector<Mv>& out) {
    int r = rankOf(to);
    if (r == 7 || r == 0) {
        int base = p.wtm ? WK : BK;
        for (int k : {K_Q, K_R, K_B, K_N}) { Mv m; m.from = from; m.to = to; m.promo = base + k; out.push_back(m); }
    } else { Mv m; m.from = from; m.to = to; out.push_back(m); }
}

void genPseudo(const Pos& p, std::vector<Mv>& out) {
    bool w = p.wtm;
    for (int s = 0; s < 64; s++) {
        int pc = p.b[s];
        if (!pc || isWhite(pc) != w) continue;
        int f = fileOf(s), r = rankOf(s);
        int k = kindOf(pc);
        auto own = [&](int t) { int q = p.b[t]; return q && isWhite(q) == w; };
        auto slide = [&](const int (*D)[2], int n) {
            for (int i = 0; i < n; i++) {
                int ff = f + D[i][0], rr = r + D[i][1];
                while (on(ff, rr)) {
                    int t = sq(ff, rr);
                    if (own(t)) break;
                    Mv m; m.from = s; m.to = t; out.push_back(m);
                    if (p.b[t]) break;
                    ff += D[i][0]; rr += D[i][1];
                }
            }
        };
        switch (k) {
        case K_P: {
            int dir = w ? 1 : -1;
            int rr = r + dir;
            if (!on(f, rr)) break;
            if (!p.b[sq(f, rr)]) {
                addPawnMove(p, s, sq(f, rr), out);
                int startR = w ? 1 : 6;
                if (r == startR && !p.b[sq(f, rr + dir)]) { Mv m; m.from = s; m.to = sq(f, rr + dir); out.push_back(m); }
            }
            for (int df = -1; df <= 1; df += 2) {
                int ff = f + df;
                if (!on(ff, rr)) continue;
                int t = sq(ff, rr);
                if (p.b[t] && !own(t)) addPawnMove(p, s, t, out);
                else if (t == p.ep && !p.b[t]) {
                    // en passant: captured pawn stands beside us
                    int cap = sq(ff, r);
                    if (p.b[cap] == (w ? BP : WP) && r == (w ? 4 : 3)) { Mv m; m.from = s; m.to = t; out.push_back(m); }
                }
            }
            break;
        }
        case K_N:
            for (auto& d : knightD) { int ff = f + d[0], rr = r + d[1]; if (on(ff, rr) && !own(sq(ff, rr))) { Mv m; m.from = s; m.to = sq(ff, rr); out.push_back(m); } }
            break;
        case K_K: {
            for (auto& d : kingD) { int ff = f + d[0], rr = r + d[1]; if (on(ff, rr) && !own(sq(ff, rr))) { Mv m; m.from = s; m.to = sq(ff, rr); out.push_back(m); } }
            int home = w ? 4 : 60;
            if (s == home) {
                int shortR = w ? CW_SHORT : CB_SHORT, longR = w ? CW_LONG : CB_LONG;
                int rook = w ? WR : BR;
                if ((p.castle & shortR) && p.b[home + 3] == rook && !p.b[home + 1] && !p.b[home + 2]
                    && !attacked(p, home, !w) && !attacked(p, home + 1, !w) && !attacked(p, home + 2, !w)) {
                    Mv m; m.from = s; m.to = home + 2; out.push_back(m);
                }
                if ((p.castle & longR) && p.b[home - 4] == rook && !p.b[home - 1] && !p.b[home - 2] && !p.b[home - 3]
                    && !attacked(p, home, !w) && !attacked(p, home - 1, !w) && !attacked(p, home - 2, !w)) {
                    Mv m; m.from = s; m.to = home - 2; out.push_back(m);
                }
            }
            break;
        }
        case K_R: slide(rookD, 4); break;
        case K_B: slide(bishD, 4); break;
        case K_Q: slide(rookD, 4); slide(bishD, 4); break;
        }
    }
}

bool isEnPassant(const Pos& p, const Mv& m) {
    return kindOf(p.b[m.from]) == K_P && p.b[m.from] && m.to == p.ep && fileOf(m.from) != fileOf(m.to) && !p.b[m.to];
}
bool isCapture(const Pos& p, const Mv& m) { return p.b[m.to] != EMPTY || isEnPassant(p, m); }
bool isCastle(const Pos& p, const Mv& m) {
    return kindOf(p.b[m.from]) == K_K && p.b[m.from] && std::abs(fileOf(m.from) - fileOf(m.to)) == 2;
}

Pos make(const Pos& p, const Mv& m) {
    Pos n = p;
    int pc = p.b[m.from];
    bool w = p.wtm;
    bool cap = p.b[m.to] != EMPTY;
    bool pawn = kindOf(pc) == K_P;
    n.ep = -1;
    if (pawn && isEnPassant(p, m)) {
        n.b[sq(fileOf(m.to), rankOf(m.from))] = EMPTY;
        cap = true;
    }
    n.b[m.from] = EMPTY;
    n.b[m.to] = m.promo ? m.promo : pc;
    if (pawn && std::abs(rankOf(m.to) - rankOf(m.from)) == 2)
        n.ep = sq(fileOf(m.from), (rankOf(m.from) + rankOf(m.to)) / 2);
    if (kindOf(pc) == K_K) {
        if (fileOf(m.to) - fileOf(m.from) == 2) { n.b[m.to + 1] = EMPTY; n.b[m.to - 1] = w ? WR : BR; }
        else if (fileOf(m.to) - fileOf(m.from) == -2) { n.b[m.to - 2] = EMPTY; n.b[m.to + 1] = w ? WR : BR; }
        n.castle &= w ? ~(CW_SHORT | CW_LONG) : ~(CB_SHORT | CB_LONG);
    }
    auto touch = [&](int s) {
        if (s == 0) n.castle &= ~CW_LONG; else if (s == 7) n.castle &= ~CW_SHORT;
        else if (s == 56) n.castle &= ~CB_LONG; else if (s == 63) n.castle &= ~CB_SHORT;
    };
    touch(m.from); touch(m.to);
    n.hmc = (pawn || cap) ? 0 : p.hmc + 1;
    if (!w) n.fullMove = p.fullMove + 1;
    n.wtm = !w;
    return n;
}

bool isLegal(const Pos& p, const Mv& m) {
    std::vector<Mv> l; genLegal(p, l);
    return std::find(l.begin(), l.end(), m) != l.end();
}

void genLegal(const Pos& p, std::vector<Mv>& out) {
    std::vector<Mv> ps; ps.reserve(64);
    genPseudo(p, ps);
    for (const Mv& m : ps) {
        Pos n = make(p, m);
        int k = n.kingSq(p.wtm);
        if (k >= 0 && attacked(n, k, !p.wtm)) continue;
        out.push_back(m);
    }
}

bool epPseudo(const Pos& p) {
    if (p.ep < 0) return false;
    std::vector<Mv> ps; genPseudo(p, ps);
    for (const Mv& m : ps) if (isEnPassant(p, m)) return true;
    return false;
}
bool epLegal(const Pos& p) {
    if (p.ep < 0) return false;
    std::vector<Mv> l; genLegal(p, l);
    for (const Mv& m : l) if (isEnPassant(p, m)) return true;
    return false;
}

bool isMate(const Pos& p) { if (!inCheck(p)) return false; std::vector<Mv> l; genLegal(p, l); return l.empty(); }
bool isStalemate(const Pos& p) { if (inCheck(p)) return false; std::vector<Mv> l; genLegal(p, l); return l.empty(); }

uint64_t perft(const Pos& p, int depth) {
    if (depth == 0) return 1;
    std::vector<Mv> l; genLegal(p, l);
    if (depth == 1) return l.size();
    uint64_t n = 0;
    for (const Mv& m : l) n += perft(make(p, m), depth - 1);
    return n;
}

std::string repKey(const Pos& p) {
    std::string k((const char*)p.b, 64);
    for (char& c : k) c = pieceChars[(int)c];
    k += p.wtm ? 'w' : 'b';
    k += char('0' + p.castle / 4); k += char('0' + p.castle % 4);
    if (epLegal(p)) k += sqName(p.ep);
    return k;
}

bool deadMaterial(const Pos& p) {
    int nMinor = 0, other = 0, light = 0, dark = 0, knights = 0;
    for (int s = 0; s < 64; s++) {
        int k = p.b[s] ? kindOf(p.b[s]) : -1;
        if (k < 0 || k == K_K) continue;
        if (k == K_B) { nMinor++; if ((fileOf(s) + rankOf(s)) & 1) light++; else dark++; }
        else if (k == K_N) { nMinor++; knights++; }
        else other++;
    }
    if (other) return false;
    if (nMinor <= 1) return true;
    if (knights == 0 && (light == 0 || dark == 0)) return true;
    return false;
}

bool matesIn(const Pos& p, int n, int64_t& nodes) {
    if (n <= 0) return false;
    if (--nodes < 0) return false;
    std::vector<Mv> l; genLegal(p, l);
    // try checks first (a mating line of length n starts, for n==1, with a check)
    for (const Mv& m : l) {
        Pos c = make(p, m);
        bool chk = inCheck(c);
        if (n == 1 && !chk) continue;
        std::vector<Mv> rep; genLegal(c, rep);
        if (rep.empty()) { if (chk) return true; continue; } // stalemate: no
        if (n == 1) continue;
        bool all = true;
        for (const Mv& r : rep) {
            if (!matesIn(make(c, r), n - 1, nodes)) { all = false; break; }
            if (nodes < 0) return false;
        }
        if (all) return true;
    }
    return false;
}

bool lostIn(const Pos& p, int n, int64_t& nodes) {
    std::vector<Mv> l; genLegal(p, l);
    if (l.empty()) return inCheck(p);
    if (n <= 0) return false;
    for (const Mv& m : l) {
        if (!matesIn(make(p, m), n, nodes)) return false;
        if (nodes < 0) return false;
    }
    return true;
}

void mateIn1Moves(const Pos& p, std::vector<Mv>& out) {
    std::vector<Mv> l; genLegal(p, l);
    for (const Mv& m : l) if (isMate(make(p, m))) out.push_back(m);
}

std::string selfTest() {
    struct T { const char* fen; int depth; uint64_t nodes; };
    static const T tests[] = {
        { startFEN, 4, 197281 },
        { "r3k2r/p1ppqpb1/bn2pnp1/3PN3/1p2P3/2N2Q1p/PPPBBPPP/R3K2R w KQkq - 0 1", 3, 97862 },
        { "8/2p5/3p4/KP5r/1R3p1k/8/4P1P1/8 w - - 0 1", 4, 43238 },
        { "r3k2r/Pppp1ppp/1b3nbN/nP6/BBP1P3/q4N2/Pp1P2PP/R2Q1RK1 w kq - 0 1", 3, 9467 },
        { "rnbq1k1r/pp1Pbppp/2p5/8/2B5/8/PPP1NnPP/RNBQK2R w KQ - 1 8", 3, 62379 },
        { "r4rk1/1pp1qppp/p1np1n2/2b1p1B1/2B1P1b1/P1NP1N2/1PP1QPPP/R4RK1 w - - 0 10", 3, 89890 },
        { "8/8/8/8/k2Pp2Q/8/8/3K4 b - d3 0 1", 2, 112 }, // e.p. illegal because of rank pin is not the case here; see below
    };
    for (const T& t : tests) {
        Pos p;
        if (!parseFEN(t.fen, p)) return std::string("parse ") + t.fen;
        if (std::string(t.fen).find("k2Pp2Q") != std::string::npos) {
            // horizontal pin: after exd3 both pawns leave the 4th rank and the queen hits the king
            std::vector<Mv> l; genLegal(p, l);
            for (const Mv& m : l) if (isEnPassant(p, m)) return "ep pin not detected";
            continue;
        }
        uint64_t n = perft(p, t.depth);
        if (n != t.nodes) return std::string("perft mismatch for ") + t.fen + ": " + std::to_string(n);
        if (toFEN(p) != t.fen) return std::string("FEN roundtrip ") + t.fen;
    }
    // mate solver sanity
    {
        Pos p; parseFEN("6k1/5ppp/8/8/8/8/8/R5K1 w - - 0 1", p);
        int64_t nodes = 1000000;
        if (!matesIn(p, 1, nodes)) return "matesIn back rank";
        parseFEN("7k/8/5K2/6Q1/8/8/8/8 w - - 0 1", p);
        nodes = 1000000;
        if (!matesIn(p, 1, nodes)) return "matesIn KQK m1";
        parseFEN("7k/8/8/5K2/6Q1/8/8/8 w - - 0 1", p); // needs 2
        nodes = 1000000;
        if (matesIn(p, 1, nodes)) return "matesIn false positive";
        nodes = 10000000;
        if (!matesIn(p, 3, nodes)) return "matesIn KQK m3";
        parseFEN("k7/8/8/8/8/8/8/K7 w - - 0 1", p);
        if (!deadMaterial(p)) return "deadMaterial";
    }
    return "";
}

} // namespace ref
