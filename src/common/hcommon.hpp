// Helpers shared by harnesses that link the engine library: conversions between refchess and
// engine types, violation/statistics reporting protocol towards the python driver.
//
// Protocol on stdout (one record per line):
//   VIOL <kind> | <witness text>          a property violation (the driver turns it into a replay file)
//   STAT <key> <integer>                  counters (summed over shards by the driver)
//   SAMPLE <text>                         an example case actually explored
//   HASH64 file is written separately when requested (distinct counting)
// Exit code: 0 ran to completion (even with VIOL lines), 2 harness error (oracle self test etc.)
#pragma once
#include "refchess.hpp"
#include "position.hpp"
#include "move.hpp"
#include "moveGen.hpp"
#include "textio.hpp"
#include "computerPlayer.hpp"
#include <cstdio>
#include <cstdlib>
#include <map>
#include <set>
#include <string>
#include <vector>
#include <unordered_set>
#include <csignal>
#include <cstring>
#include <unistd.h>

extern "C" void __sanitizer_set_death_callback(void (*)(void)) __attribute__((weak));

namespace hc {

// "Crumb": the case currently being executed, dumped to stderr when the process dies from a
// sanitizer report, an assert or a signal, so that the driver can attach a witness to the report.
inline char* crumbBuf() { static char buf[1 << 16]; return buf; }
inline void setCrumb(const std::string& s) {
    size_t n = s.size() < (1 << 16) - 1 ? s.size() : (1 << 16) - 1;
    memcpy(crumbBuf(), s.data(), n); crumbBuf()[n] = 0;
}
inline void dumpCrumb() {
    const char* b = crumbBuf();
    if (!*b) return;
    (void)!write(2, "\nCRUMB ", 7); (void)!write(2, b, strlen(b)); (void)!write(2, "\n", 1);
}
inline void crumbSignal(int sig) { dumpCrumb(); signal(sig, SIG_DFL); raise(sig); }
inline void installCrumb() {
    if (__sanitizer_set_death_callback) __sanitizer_set_death_callback(dumpCrumb);
    signal(SIGABRT, crumbSignal);
#if !defined(__SANITIZE_ADDRESS__)
    signal(SIGSEGV, crumbSignal); signal(SIGBUS, crumbSignal); signal(SIGFPE, crumbSignal); signal(SIGILL, crumbSignal);
#endif
}

} // namespace hc
// UBSan-only aborts do not go through the ASan death callback: dump the crumb from UBSan's report hook as well.
extern "C" __attribute__((weak)) void __ubsan_on_report() { hc::dumpCrumb(); }
namespace hc {

struct Report {
    std::map<std::string, long long> stat;
    int nViol = 0;
    int nSamples = 0;
    int maxViolPrinted = 20;
    std::unordered_set<uint64_t> distinct;   // hashes of distinct non-trivial cases
    void viol(const std::string& kind, const std::string& witness) {
        nViol++;
        if (nViol <= maxViolPrinted) { printf("VIOL %s | %s\n", kind.c_str(), witness.c_str()); fflush(stdout); }
    }
    void sample(const std::string& s, int maxSamples = 6) {
        if (nSamples < maxSamples) { nSamples++; printf("SAMPLE %s\n", s.c_str()); }
    }
    void add(const std::string& k, long long v = 1) { stat[k] += v; }
    void finish(const char* hashFile = nullptr) {
        stat["violations"] += nViol;
        stat["distinct_local"] += (long long)distinct.size();
        for (auto& kv : stat) printf("STAT %s %lld\n", kv.first.c_str(), kv.second);
        if (hashFile && *hashFile) {
            FILE* f = fopen(hashFile, "wb");
            if (f) { for (uint64_t h : distinct) fwrite(&h, 8, 1, f); fclose(f); }
        }
        fflush(stdout);
    }
};

inline uint64_t fnv(const std::string& s) {
    uint64_t h = 1469598103934665603ull;
    for (unsigned char c : s) { h ^= c; h *= 1099511628211ull; }
    return h;
}

inline ref::Mv toRef(const Move& m) { ref::Mv r; r.from = (int8_t)m.from().asInt(); r.to = (int8_t)m.to().asInt(); r.promo = (int8_t)m.promoteTo(); return r; }
inline Move toEng(const ref::Mv& m) { return Move(Square(m.from), Square(m.to), m.promo); }

/** Board/side/castle/ep/counters of an engine position as a refchess position (ep copied verbatim). */
inline ref::Pos toRef(const Position& p) {
    ref::Pos r;
    for (int s = 0; s < 64; s++) r.b[s] = (int8_t)p.getPiece(Square(s));
    r.wtm = p.isWhiteMove();
    r.castle = p.getCastleMask();
    r.ep = p.getEpSquare().isValid() ? p.getEpSquare().asInt() : -1;
    r.hmc = p.getHalfMoveClock();
    r.fullMove = p.getFullMoveCounter();
    return r;
}

/** Try the engine's FEN reader. */
inline bool readFEN(const std::string& fen, Position& out) {
    try { out = TextIO::readFEN(fen); return true; } catch (const ChessParseError&) { return false; }
}

inline std::string boardKey(const ref::Pos& p) { // board+side+castle (no ep, no counters)
    std::string f = ref::toFEN(p);
    size_t a = f.find(' '); a = f.find(' ', a + 1); a = f.find(' ', a + 1);
    return f.substr(0, a);
}

inline long long argLL(int argc, char** argv, int i, long long def) { return i < argc ? atoll(argv[i]) : def; }

inline void requireSelfTest() {
    installCrumb();
    std::string r = ref::selfTest();
    if (!r.empty()) { fprintf(stderr, "refchess self test failed: %s\n", r.c_str()); exit(2); }
}

} // namespace hc
