// posgen-cli: seeded case generators for the python-side checks (refchess only).
//   positions <seed> <n>                 FENs: tricky list, game positions, synthetic templates
//   games <seed> <n> <maxplies> <style>  "<startfen> | m1 m2 ..."   (style 0..3; start = initial position unless style>=10: tricky starts)
//   mates <seed> <n> <maxN>              "<fen> | <N>"  positions where the side to move mates in exactly N<=maxN (N minimal)
//   mate1 <seed> <n>                     "<fen> | m1 m2.."  positions with a mate in one, all mating moves listed
//   few <seed> <n> <maxmen>              pawnless positions with <= maxmen men ("<fen>")
#include "refchess.hpp"
#include "vposgen.hpp"
#include <iostream>
#include <cstdlib>
#include <algorithm>
using namespace ref;
using posgen::Rng;

static Pos attackPos(Rng& r) {
    // lone or exposed king vs heavy pieces nearby
    for (;;) {
        Pos p; p.wtm = r.chance(50);
        bool w = p.wtm;
        int dk = sq(r.chance(60) ? (r.chance(50) ? 0 : 7) : r.below(8), r.chance(60) ? (r.chance(50) ? 0 : 7) : r.below(8));
        p.b[dk] = w ? BK : WK;
        int ak = r.below(64); if (ak == dk) continue; p.b[ak] = w ? WK : BK;
        int na = r.range(1, 4);
        for (int i = 0; i < na; i++) {
            int f = std::min(7, std::max(0, fileOf(dk) + r.range(-3, 3))), rr = std::min(7, std::max(0, rankOf(dk) + r.range(-3, 3)));
            int s = sq(f, rr); if (p.b[s]) continue;
            int kind = (const int[]){K_Q, K_R, K_R, K_B, K_N, K_P}[r.below(6)];
            if (kind == K_P && (rr == 0 || rr == 7)) kind = K_N;
            p.b[s] = (w ? WK : BK) + kind;
        }
        int nd = r.range(0, 5);
        for (int i = 0; i < nd; i++) {
            int s = r.below(64); if (p.b[s]) continue;
            int kind = (const int[]){K_Q, K_R, K_B, K_N, K_P, K_P, K_P}[r.below(7)];
            if (kind == K_P && (rankOf(s) == 0 || rankOf(s) == 7)) continue;
            p.b[s] = (w ? BK : WK) + kind;
        }
        if (r.chance(40)) for (int i = 0; i < 4; i++) { int s = r.below(64); if (!p.b[s] && rankOf(s) > 0 && rankOf(s) < 7) p.b[s] = r.chance(50) ? WP : BP; }
        p.hmc = 0; p.fullMove = 1 + r.below(60);
        if (!plausible(p) || !posgen::countsOk(p)) continue;
        return p;
    }
}

int main(int argc, char** argv) {
    if (argc < 4) return 2;
    std::string mode = argv[1];
    Rng r(strtoull(argv[2], 0, 10));
    long n = atol(argv[3]);
    std::vector<Pos> tricky;
    for (auto& f : posgen::trickyFens()) { Pos p; parseFEN(f, p); tricky.push_back(p); }
    if (mode == "positions") {
        long done = 0;
        while (done < n) {
            int k = r.below(10);
            if (k < 1) { std::cout << toFEN(tricky[r.below((int)tricky.size())]) << "\n"; done++; }
            else if (k < 6) {
                Pos start = r.chance(50) ? tricky[0] : tricky[r.below((int)tricky.size())];
                posgen::Game g = posgen::randomGame(r, start, r.range(4, 120), r.chance(70) ? posgen::TACTICAL : posgen::UNIFORM);
                Pos p = g.pos[r.below((int)g.pos.size())];
                if (!epLegal(p)) p.ep = -1;
                std::cout << toFEN(p) << "\n"; done++;
            } else { std::cout << toFEN(posgen::synthetic(r, r.below(posgen::T_NTEMPLATES))) << "\n"; done++; }
        }
    } else if (mode == "games") {
        int maxPlies = argc > 4 ? atoi(argv[4]) : 80; int style = argc > 5 ? atoi(argv[5]) : 1;
        for (long i = 0; i < n; i++) {
            Pos start = tricky[0];
            if (style >= 10) start = tricky[r.below((int)tricky.size())];
            posgen::Game g = posgen::randomGame(r, start, r.range(1, maxPlies), (posgen::Style)(style % 10));
            std::cout << toFEN(start) << " |";
            for (auto& m : g.moves) std::cout << ' ' << mvStr(m);
            std::cout << "\n";
        }
    } else if (mode == "mates") {
        int maxN = argc > 4 ? atoi(argv[4]) : 3;
        long done = 0;
        while (done < n) {
            Pos p = attackPos(r);
            std::vector<Mv> l; genLegal(p, l); if (l.empty()) continue;
            int found = 0;
            for (int k = 1; k <= maxN; k++) { int64_t nodes = k <= 2 ? 400000 : 3000000; bool y = matesIn(p, k, nodes); if (nodes < 0) break; if (y) { found = k; break; } }
            if (!found) continue;
            if (found == 1 && !r.chance(15)) continue;
            std::cout << toFEN(p) << " | " << found << "\n"; done++;
        }
    } else if (mode == "mate1") {
        long done = 0;
        while (done < n) {
            Pos p;
            int k = r.below(10);
            if (k < 5) p = attackPos(r);
            else if (k < 8) p = posgen::synthetic(r, r.below(posgen::T_NTEMPLATES));
            else { posgen::Game g = posgen::randomGame(r, tricky[r.below((int)tricky.size())], r.range(4, 100), posgen::TACTICAL); p = g.pos.back(); if (!epLegal(p)) p.ep = -1; }
            std::vector<Mv> m1; mateIn1Moves(p, m1);
            if (m1.empty()) continue;
            std::cout << toFEN(p) << " |";
            for (auto& m : m1) {
                std::cout << ' ' << mvStr(m);
            }
            // classify for evidence
            bool promo = false, ep = false, castle = false, dbl = false, disc = false;
            for (auto& m : m1) { if (m.promo) promo = true; if (isEnPassant(p, m)) ep = true; if (isCastle(p, m)) castle = true;
                Pos c = make(p, m); posgen::Features ft = posgen::features(c); if (ft.doubleCheck) dbl = true;
                // discovered: the moved piece does not itself attack the king
                Pos t = c; for (int s = 0; s < 64; s++) if (s != m.to && t.b[s] && isWhite(t.b[s]) == p.wtm && kindOf(t.b[s]) != K_K) t.b[s] = EMPTY;
                if (!attacked(t, c.kingSq(c.wtm), p.wtm)) disc = true; }
            std::cout << " |" << (promo ? " promo" : "") << (ep ? " ep" : "") << (castle ? " castle" : "") << (dbl ? " double" : "") << (disc ? " discovered" : "") << "\n"; done++;
        }
    } else if (mode == "few") {
        int maxMen = argc > 4 ? atoi(argv[4]) : 4;
        long done = 0;
        while (done < n) {
            Pos p; p.wtm = r.chance(50);
            p.b[r.below(64)] = WK; int s = r.below(64); if (p.b[s]) continue; p.b[s] = BK;
            int extra = r.range(1, maxMen - 2);
            for (int i = 0; i < extra; i++) { int q = r.below(64); if (p.b[q]) { i--; continue; } p.b[q] = (r.chance(50) ? WK : BK) + (const int[]){K_Q, K_R, K_B, K_N}[r.below(4)]; }
            p.hmc = 0;
            if (!plausible(p) || !posgen::countsOk(p)) continue;
            std::cout << toFEN(p) << "\n"; done++;
        }
    } else return 2;
    return 0;
}
