// posgen-cli: seeded case generators for the python-side checks (refchess only).
//   positions <seed> <n>                 FENs: tricky list, game positions, synthetic templates
//   games <seed> <n> <maxplies> <style>  "<startfen> | m1 m2 ..."   (style 0..3; start = initial position unless style>=10: tricky starts)
//   mates <seed> <n> <maxN>              "<fen> | <N>"  positions where the side to move mates in exactly N<=maxN (N minimal)
//   onlyreply <seed> <n>                 "<fen> | check | reply | type"  a check that leaves exactly one legal reply
//   mate1 <seed> <n>                     "<fen> | m1 m2.."  positions with a mate in one, all mating moves listed
//   few <seed> <n> <maxmen>              pawnless positions with <= maxmen men ("<fen>")
#include "refchess.hpp"
#include "vposgen.hpp"
#include <iostream>
#include <cstdlib>
#include <algorithm>
using namespace ref;
using posgen::Rng;

// Classify the single legal reply to a check (evidence + stratified sampling)
static const char* replyType(const Pos& c, const Mv& m) {
    int k = kindOf(c.b[m.from]);
    if (k == K_K) return isCapture(c, m) ? "king-capture" : "king-move";
    if (isEnPassant(c, m)) return "ep-capture";
    if (isCapture(c, m)) return m.promo ? "promo-capture" : "capture";
    if (k == K_P) { if (m.promo) return "block-promo"; return std::abs(m.to - m.from) == 16 ? "block-pawn2" : "block-pawn1"; }
    return "block-piece";
}

// Position (defender to move, in check from a slider) built so that a pawn double step onto the checking line
// exists; other men are sprinkled at random. The caller filters for "exactly one legal reply".
static bool block2After(Rng& r, Pos& out) {
    Pos p; bool defWhite = r.chance(50);
    int f = r.below(8), r7 = defWhite ? 1 : 6, r6 = defWhite ? 2 : 5, r5 = defWhite ? 3 : 4;
    int T = sq(f, r5);
    static const int dirs[6][2] = {{1,0},{-1,0},{1,1},{1,-1},{-1,1},{-1,-1}};
    const int* d = dirs[r.below(6)];
    auto at = [&](int k) { int ff = f + k * d[0], rr = r5 + k * d[1]; return (ff < 0 || ff > 7 || rr < 0 || rr > 7) ? -1 : sq(ff, rr); };
    int kmax = 0, jmax = 0;
    while (at(kmax + 1) >= 0) kmax++;
    while (at(-(jmax + 1)) >= 0) jmax++;
    if (!kmax || !jmax) return false;
    int ks = at(r.range(1, kmax)), as = at(-r.range(1, jmax));
    p.b[sq(f, r7)] = defWhite ? WP : BP;
    p.b[ks] = defWhite ? WK : BK;
    bool diag = d[0] && d[1];
    p.b[as] = (defWhite ? BK : WK) + (r.chance(40) ? K_Q : (diag ? K_B : K_R));
    if (p.b[sq(f, r6)] || p.b[T]) return false;
    // the line between attacker and king must stay empty
    std::vector<int> line; for (int k = -jmax; k <= kmax; k++) { int s = at(k); if (s == as || s == ks) continue; bool between = false;
        // between iff walking from as in direction d reaches s before ks
        for (int q = 1; ; q++) { int ff = fileOf(as) + q * d[0], rr = rankOf(as) + q * d[1]; if (sq(ff, rr) == ks) break; if (sq(ff, rr) == s) { between = true; break; } }
        if (between) line.push_back(s); }
    auto reserved = [&](int s) { if (s == sq(f, r6)) return true; for (int x : line) if (x == s) return true; return false; };
    int ak; do ak = r.below(64); while (p.b[ak] || reserved(ak)); p.b[ak] = defWhite ? BK : WK;
    // defender's own men around the king, attacker's men anywhere
    int nown = r.range(1, 6);
    for (int i = 0; i < nown; i++) {
        int s = sq(std::min(7, std::max(0, fileOf(ks) + r.range(-1, 1))), std::min(7, std::max(0, rankOf(ks) + r.range(-1, 1))));
        if (p.b[s] || reserved(s)) continue;
        int kind = (const int[]){K_P, K_P, K_P, K_R, K_B, K_N, K_Q}[r.below(7)];
        if (kind == K_P && (rankOf(s) == 0 || rankOf(s) == 7)) kind = K_N;
        p.b[s] = (defWhite ? WK : BK) + kind;
    }
    int natt = r.range(0, 4);
    for (int i = 0; i < natt; i++) {
        int s = r.below(64); if (p.b[s] || reserved(s)) continue;
        int kind = (const int[]){K_Q, K_R, K_R, K_B, K_N, K_P}[r.below(6)];
        if (kind == K_P && (rankOf(s) == 0 || rankOf(s) == 7)) kind = K_N;
        p.b[s] = (defWhite ? BK : WK) + kind;
    }
    p.wtm = defWhite; p.hmc = r.below(20); p.fullMove = 1 + r.below(60);
    if (!plausible(p) || !posgen::countsOk(p) || !inCheck(p)) return false;
    out = p; return true;
}

// Retract the checking slider's last move: attacker to move, defender not in check, and moving back gives `after`.
static bool retractChecker(Rng& r, const Pos& after, Pos& before, Mv& mv) {
    int ks = after.kingSq(after.wtm);
    std::vector<std::pair<int,int>> cand; // (checker square, origin)
    for (int s = 0; s < 64; s++) {
        int pc = after.b[s]; if (!pc || isWhite(pc) == after.wtm) continue;
        int k = kindOf(pc); if (k != K_Q && k != K_R && k != K_B) continue;
        Pos t = after; t.b[s] = EMPTY; if (attacked(t, ks, !after.wtm)) continue; // not the (only) checker
        for (int o = 0; o < 64; o++) {
            if (after.b[o]) continue;
            Pos b = after; b.b[s] = EMPTY; b.b[o] = pc; b.wtm = !after.wtm; b.ep = -1;
            if (!plausible(b)) continue;
            Mv m; m.from = o; m.to = s; m.promo = EMPTY;
            if (!isLegal(b, m)) continue;
            cand.push_back({s, o});
        }
    }
    if (cand.empty()) return false;
    auto c = cand[r.below((int)cand.size())];
    before = after; before.b[c.second] = after.b[c.first]; before.b[c.first] = EMPTY; before.wtm = !after.wtm; before.ep = -1;
    before.hmc = after.hmc ? after.hmc - 1 : 0;
    mv.from = c.second; mv.to = c.first; mv.promo = EMPTY;
    return true;
}

// An en passant capture that removes both pawns from the rank and so uncovers a rook/queen check along it; other men at random.
// The caller filters for "that capture is mate". Both pawn orders (capturing pawn nearer to the rook or to the king), both colours.
static bool epRankDiscovery(Rng& r, Pos& out) {
    Pos p; bool w = r.chance(50);                 // w: white captures
    int rk = w ? 4 : 3;                           // the rank of both pawns
    int files[4]; for (int i = 0; i < 4; i++) files[i] = 0;
    // choose 4 increasing files: slider, pawn, pawn (adjacent), king; then maybe mirror
    int a = r.below(4), b = a + 1 + r.below(3); if (b > 5) return false;
    int c = b + 1, k = c + 1 + r.below(7 - c); if (k > 7) return false;
    bool mirror = r.chance(50);
    auto F = [&](int f) { return mirror ? 7 - f : f; };
    bool capturerNearSlider = r.chance(50);
    int own = w ? WP : BP, opp = w ? BP : WP;
    p.b[sq(F(a), rk)] = (w ? WK : BK) + (r.chance(50) ? K_R : K_Q);
    p.b[sq(F(b), rk)] = capturerNearSlider ? own : opp;
    p.b[sq(F(c), rk)] = capturerNearSlider ? opp : own;
    p.b[sq(F(k), rk)] = w ? BK : WK;
    int oppFile = F(capturerNearSlider ? c : b);
    p.ep = sq(oppFile, w ? 5 : 2);
    if (p.b[p.ep] || p.b[sq(oppFile, w ? 6 : 1)]) return false;
    // own king somewhere, then helpers that take the king's flight squares
    for (int t = 0; t < 50; t++) { int s = r.below(64); if (!p.b[s] && s != p.ep && s != sq(oppFile, w ? 6 : 1)) { p.b[s] = w ? WK : BK; break; } }
    int n = r.range(1, 5);
    for (int i = 0; i < n; i++) {
        int ks = sq(F(k), rk);
        int s = sq(std::min(7, std::max(0, fileOf(ks) + r.range(-2, 2))), std::min(7, std::max(0, rankOf(ks) + r.range(-2, 2))));
        if (p.b[s] || s == p.ep || s == sq(oppFile, w ? 6 : 1) || rankOf(s) == rk) continue;
        int kind = (const int[]){K_Q, K_R, K_B, K_N, K_P, K_P}[r.below(6)];
        if (kind == K_P && (rankOf(s) == 0 || rankOf(s) == 7)) kind = K_N;
        bool mine = r.chance(60);
        p.b[s] = ((mine == w) ? WK : BK) + kind;
    }
    p.wtm = w; p.hmc = 0; p.fullMove = 20;
    if (!plausible(p) || !posgen::countsOk(p) || !epLegal(p)) return false;
    out = p; return true;
}

static Pos attackPos(Rng& r) {
    // lone or exposed king vs heavy pieces nearby
    for (;;) {
        Pos p; p.wtm = r.chance(50);
        bool w = p.wtm;
        int dk = sq(r.chance(60) ? (r.chance(50) ? 0 : 7) : r.below(8), r.chance(60) ? (r.chance(50) ? 0 : 7) : r.below(8));
        p.b[dk] = w ? BK : WK;
        int ak = r.below(64); if (ak == dk) continue; p.b[ak] = w ? WK : BK;
        int na = r.range(1, 4);
        for (int i = 0; i < na; i++) {
            int f = std::min(7, std::max(0, fileOf(dk) + r.range(-3, 3))), rr = std::min(7, std::max(0, rankOf(dk) + r.range(-3, 3)));
            int s = sq(f, rr); if (p.b[s]) continue;
            int kind = (const int[]){K_Q, K_R, K_R, K_B, K_N, K_P}[r.below(6)];
            if (kind == K_P && (rr == 0 || rr == 7)) kind = K_N;
            p.b[s] = (w ? WK : BK) + kind;
        }
        int nd = r.range(0, 5);
        for (int i = 0; i < nd; i++) {
            int s = r.below(64); if (p.b[s]) continue;
            int kind = (const int[]){K_Q, K_R, K_B, K_N, K_P, K_P, K_P}[r.below(7)];
            if (kind == K_P && (rankOf(s) == 0 || rankOf(s) == 7)) continue;
            p.b[s] = (w ? BK : WK) + kind;
        }
        if (r.chance(40)) for (int i = 0; i < 4; i++) { int s = r.below(64); if (!p.b[s] && rankOf(s) > 0 && rankOf(s) < 7) p.b[s] = r.chance(50) ? WP : BP; }
        p.hmc = 0; p.fullMove = 1 + r.below(60);
        if (!plausible(p) || !posgen::countsOk(p)) continue;
        return p;
    }
}


// ---- C11 case generation -------------------------------------------------------------------
using posgen::findCycle; using posgen::reversible;

static void emitCase(const Pos& start, const std::vector<Mv>& moves, const Mv& m, const char* expect, const std::string& tag) {
    std::cout << toFEN(start) << " |";
    for (auto& x : moves) std::cout << ' ' << mvStr(x);
    std::cout << " | " << mvStr(m) << " | " << expect << " | " << tag << "\n";
}

// count FIDE occurrences of the position after (moves + m) in start+moves history
static int occurrencesAfter(const Pos& start, const std::vector<Mv>& moves, const Mv& m) {
    Pos p = start; std::vector<std::string> keys; keys.push_back(repKey(p));
    for (auto& x : moves) { p = make(p, x); keys.push_back(repKey(p)); }
    std::string k = repKey(make(p, m));
    int n = 1; for (auto& s : keys) if (s == k) n++;
    return n;
}

static bool genRepCase(Rng& r, const std::vector<Pos>& tricky) {
    Pos start = r.chance(60) ? tricky[0] : tricky[r.below((int)tricky.size())];
    start.hmc = 0;
    posgen::Game g = posgen::randomGame(r, start, r.range(0, 60), r.chance(50) ? posgen::QUIET : posgen::TACTICAL);
    std::vector<Mv> moves = g.moves;
    Pos x = g.pos.back();
    { std::vector<Mv> l; genLegal(x, l); if (l.empty()) return false; }
    Mv c[4];
    if (!findCycle(r, x, c)) return false;
    int kind = r.below(10);
    std::string tag;
    if (kind < 6) { // third occurrence, optionally with an irreversible move well before
        for (int rep = 0; rep < 2; rep++) for (int i = 0; i < 4; i++) if (!(rep == 1 && i == 3)) moves.push_back(c[i]);
        tag = "rep3";
    } else if (kind < 8) { // second occurrence only (control)
        for (int i = 0; i < 3; i++) moves.push_back(c[i]);
        tag = "rep2";
    } else { // one cycle, an irreversible move, then more cycles: occurrences before the irreversible move must not count
        for (int i = 0; i < 4; i++) moves.push_back(c[i]);
        Pos p = x; std::vector<Mv> l; genLegal(p, l);
        std::vector<Mv> irr; for (auto& m : l) if (!reversible(p, m)) irr.push_back(m);
        if (irr.empty()) return false;
        Mv im = irr[r.below((int)irr.size())];
        moves.push_back(im);
        Pos y = make(p, im);
        { std::vector<Mv> l2; genLegal(y, l2); if (l2.empty()) return false; }
        Mv d[4];
        if (!findCycle(r, y, d)) return false;
        int reps = r.chance(50) ? 2 : 1;
        for (int rep = 0; rep < reps; rep++) for (int i = 0; i < 4; i++) if (!(rep == reps - 1 && i == 3)) moves.push_back(d[i]);
        c[3] = d[3];
        tag = reps == 2 ? "rep3-after-irreversible" : "rep2-after-irreversible";
    }
    int occ = occurrencesAfter(start, moves, c[3]);
    // the candidate must not mate/stalemate-conflict: if it happens to mate, expectation is mate
    Pos p = start; for (auto& mv : moves) p = make(p, mv);
    Pos after = make(p, c[3]);
    const char* expect = isMate(after) ? "mate1" : (occ >= 3 ? "draw" : "control");
    emitCase(start, moves, c[3], expect, tag + " occ=" + std::to_string(occ) + " len=" + std::to_string(moves.size()));
    return true;
}

static bool genEpRepCase(Rng& r) {
    Pos p; Mv push;
    if (!posgen::epPinnedPush(r, p, push)) return false;
    Pos x = make(p, push);
    std::vector<Mv> l; genLegal(x, l); if (l.empty()) return false;
    Mv c[4];
    if (!findCycle(r, x, c)) return false;
    std::vector<Mv> moves; moves.push_back(push);
    for (int rep = 0; rep < 2; rep++) for (int i = 0; i < 4; i++) if (!(rep == 1 && i == 3)) moves.push_back(c[i]);
    int occ = occurrencesAfter(p, moves, c[3]);
    Pos q = p; for (auto& mv : moves) q = make(q, mv);
    if (isMate(make(q, c[3]))) return false;
    emitCase(p, moves, c[3], occ >= 3 ? "draw" : "control", "rep3-first-occurrence-has-uncapturable-ep occ=" + std::to_string(occ));
    return true;
}

static bool genFiftyCase(Rng& r, const std::vector<Pos>& tricky) {
    int kind = r.below(10);
    if (kind < 3) {
        // mate in one delivered by the move that completes the 100th reversible ply: still mate
        Pos p; std::vector<Mv> rev;
        for (int t = 0; t < 400 && rev.empty(); t++) {
            p = attackPos(r);
            std::vector<Mv> m1; mateIn1Moves(p, m1);
            for (auto& m : m1) if (reversible(p, m)) rev.push_back(m);
        }
        if (rev.empty()) return false;
        p.hmc = r.chance(70) ? 99 : r.range(100, 110);
        p.ep = -1;
        emitCase(p, {}, rev[r.below((int)rev.size())], "mate1", "fifty-mate hmc=" + std::to_string(p.hmc));
        return true;
    }
    Pos start = tricky[r.below((int)tricky.size())];
    posgen::Game g = posgen::randomGame(r, start, r.range(0, 50), posgen::QUIET);
    Pos x = g.pos.back();
    x.ep = -1;
    // clock given by FEN, then k reversible moves played
    int k = r.range(0, 8);
    int target = kind < 7 ? 99 : (kind < 9 ? r.range(100, 109) : r.range(90, 98));   // hmc before the candidate
    x.hmc = target - k; if (x.hmc < 0) return false;
    x.fullMove = 60;
    Pos p = x; std::vector<Mv> moves;
    for (int i = 0; i < k; i++) {
        std::vector<Mv> l; genLegal(p, l);
        std::vector<Mv> rv; for (auto& m : l) if (reversible(p, m)) rv.push_back(m);
        if (rv.empty()) return false;
        Mv m = rv[r.below((int)rv.size())]; moves.push_back(m); p = make(p, m);
    }
    std::vector<Mv> l; genLegal(p, l); if (l.empty()) return false;
    Mv m = l[r.below((int)l.size())];
    Pos after = make(p, m);
    const char* expect;
    std::string tag = "fifty hmc_before=" + std::to_string(p.hmc) + (reversible(p, m) ? " reversible" : " irreversible");
    if (isMate(after)) expect = "mate1";
    else if (reversible(p, m) && after.hmc >= 100) expect = "draw";
    else if (occurrencesAfter(x, moves, m) >= 3) expect = "draw";
    else expect = "control";
    emitCase(x, moves, m, expect, tag);
    return true;
}

int main(int argc, char** argv) {
    if (argc < 4) return 2;
    std::string mode = argv[1];
    Rng r(strtoull(argv[2], 0, 10));
    long n = atol(argv[3]);
    std::vector<Pos> tricky;
    for (auto& f : posgen::trickyFens()) { Pos p; parseFEN(f, p); tricky.push_back(p); }
    if (mode == "positions") {
        long done = 0;
        while (done < n) {
            int k = r.below(10);
            if (k < 1) { std::cout << toFEN(tricky[r.below((int)tricky.size())]) << "\n"; done++; }
            else if (k < 6) {
                Pos start = r.chance(50) ? tricky[0] : tricky[r.below((int)tricky.size())];
                posgen::Game g = posgen::randomGame(r, start, r.range(4, 120), r.chance(70) ? posgen::TACTICAL : posgen::UNIFORM);
                Pos p = g.pos[r.below((int)g.pos.size())];
                if (!epLegal(p)) p.ep = -1;
                std::cout << toFEN(p) << "\n"; done++;
            } else { std::cout << toFEN(posgen::synthetic(r, r.below(posgen::T_NTEMPLATES))) << "\n"; done++; }
        }
    } else if (mode == "games") {
        int maxPlies = argc > 4 ? atoi(argv[4]) : 80; int style = argc > 5 ? atoi(argv[5]) : 1;
        for (long i = 0; i < n; i++) {
            Pos start = tricky[0];
            if (style >= 10) start = tricky[r.below((int)tricky.size())];
            posgen::Game g = posgen::randomGame(r, start, r.range(1, maxPlies), (posgen::Style)(style % 10));
            std::cout << toFEN(start) << " |";
            for (auto& m : g.moves) std::cout << ' ' << mvStr(m);
            std::cout << "\n";
        }
    } else if (mode == "mates") {
        int maxN = argc > 4 ? atoi(argv[4]) : 3;
        long done = 0;
        while (done < n) {
            Pos p = attackPos(r);
            std::vector<Mv> l; genLegal(p, l); if (l.empty()) continue;
            int found = 0;
            for (int k = 1; k <= maxN; k++) { int64_t nodes = k <= 2 ? 400000 : 3000000; bool y = matesIn(p, k, nodes); if (nodes < 0) break; if (y) { found = k; break; } }
            if (!found) continue;
            if (found == 1 && !r.chance(15)) continue;
            std::cout << toFEN(p) << " | " << found << "\n"; done++;
        }
    } else if (mode == "mate1") {
        long done = 0;
        while (done < n) {
            Pos p;
            int k = r.below(10);
            if (r.chance(12)) {
                // constructed: the mate is an e.p. capture that uncovers a rank check through both vanished pawns
                bool found = false;
                for (int t = 0; t < 4000 && !found; t++) {
                    if (!epRankDiscovery(r, p)) continue;
                    std::vector<Mv> mm; mateIn1Moves(p, mm);
                    for (auto& m : mm) if (isEnPassant(p, m)) found = true;
                }
                if (!found) continue;
            }
            else if (k < 5) p = attackPos(r);
            else if (k < 8) p = posgen::synthetic(r, r.below(posgen::T_NTEMPLATES));
            else { posgen::Game g = posgen::randomGame(r, tricky[r.below((int)tricky.size())], r.range(4, 100), posgen::TACTICAL); p = g.pos.back(); if (!epLegal(p)) p.ep = -1; }
            std::vector<Mv> m1; mateIn1Moves(p, m1);
            if (m1.empty()) continue;
            std::cout << toFEN(p) << " |";
            for (auto& m : m1) {
                std::cout << ' ' << mvStr(m);
            }
            // classify for evidence
            bool promo = false, ep = false, castle = false, dbl = false, disc = false;
            for (auto& m : m1) { if (m.promo) promo = true; if (isEnPassant(p, m)) ep = true; if (isCastle(p, m)) castle = true;
                Pos c = make(p, m); posgen::Features ft = posgen::features(c); if (ft.doubleCheck) dbl = true;
                // discovered: the moved piece does not itself attack the king
                Pos t = c; for (int s = 0; s < 64; s++) if (s != m.to && t.b[s] && isWhite(t.b[s]) == p.wtm && kindOf(t.b[s]) != K_K) t.b[s] = EMPTY;
                if (!attacked(t, c.kingSq(c.wtm), p.wtm)) disc = true; }
            std::cout << " |" << (promo ? " promo" : "") << (ep ? " ep" : "") << (castle ? " castle" : "") << (dbl ? " double" : "") << (disc ? " discovered" : "") << "\n"; done++;
        }
    } else if (mode == "onlyreply") {
        // "<fen before> | <checking move> | <only reply> | <type>": a check that leaves exactly one legal reply.
        // Half of the cases are constructed so that the reply is a pawn double step onto the checking line.
        long done = 0; long guard = 0;
        while (done < n && guard++ < 200000000L) {
            int k = r.below(10);
            if (k < 5) {
                Pos a; if (!block2After(r, a)) continue;
                std::vector<Mv> l; genLegal(a, l); if (l.size() != 1) continue;
                if (std::string(replyType(a, l[0])) != "block-pawn2" && !r.chance(10)) continue;
                Pos b; Mv m; if (!retractChecker(r, a, b, m)) continue;
                if (!(toFEN(make(b, m)).substr(0, toFEN(a).find(' ')) == toFEN(a).substr(0, toFEN(a).find(' ')))) continue;
                std::cout << toFEN(b) << " | " << mvStr(m) << " | " << mvStr(l[0]) << " | " << replyType(a, l[0]) << "\n"; done++;
                continue;
            }
            Pos p;
            if (k < 7) p = attackPos(r);
            else if (k < 8) p = posgen::synthetic(r, r.below(posgen::T_NTEMPLATES));
            else { posgen::Game g = posgen::randomGame(r, tricky[r.below((int)tricky.size())], r.range(4, 100), posgen::TACTICAL); p = g.pos.back(); if (!epLegal(p)) p.ep = -1; }
            std::vector<Mv> l; genLegal(p, l);
            std::vector<std::pair<Mv, Mv>> hits;
            for (auto& m : l) { Pos c = make(p, m); if (!inCheck(c)) continue; std::vector<Mv> rep; genLegal(c, rep); if (rep.size() == 1) hits.push_back({m, rep[0]}); }
            if (hits.empty()) continue;
            auto h = hits[r.below((int)hits.size())];
            Pos c = make(p, h.first);
            std::string ty = replyType(c, h.second);
            if ((ty == "king-move" || ty == "king-capture") && !r.chance(25)) continue;
            std::cout << toFEN(p) << " | " << mvStr(h.first) << " | " << mvStr(h.second) << " | " << ty << "\n"; done++;
        }
    } else if (mode == "c11") {
        long done = 0;
        while (done < n) {
            int k = r.below(20);
            bool ok = k < 9 ? genRepCase(r, tricky) : (k < 12 ? genEpRepCase(r) : genFiftyCase(r, tricky));
            if (ok) done++;
        }
    } else if (mode == "few") {
        int maxMen = argc > 4 ? atoi(argv[4]) : 4;
        long done = 0;
        while (done < n) {
            Pos p; p.wtm = r.chance(50);
            p.b[r.below(64)] = WK; int s = r.below(64); if (p.b[s]) continue; p.b[s] = BK;
            int extra = r.range(1, maxMen - 2);
            for (int i = 0; i < extra; i++) { int q = r.below(64); if (p.b[q]) { i--; continue; } p.b[q] = (r.chance(50) ? WK : BK) + (const int[]){K_Q, K_R, K_B, K_N}[r.below(4)]; }
            p.hmc = 0;
            if (!plausible(p) || !posgen::countsOk(p)) continue;
            std::cout << toFEN(p) << "\n"; done++;
        }
    } else return 2;
    return 0;
}
