#pragma once
#include <cstdint>
#include <functional>
#include <string>
namespace cosched {
enum Strategy { RANDOM = 0, PCT = 1 };
struct Options {
    uint64_t seed = 1;
    Strategy strategy = RANDOM;
    int pctDepth = 0;               // number of priority change points (PCT)
    int64_t pctHorizon = 2000;      // change points are drawn from [1, horizon] scheduler steps
    int spuriousPermille = 0;       // probability of a (specification-permitted) spurious condition-variable wake-up
    bool switchOnUnlock = false;    // also a scheduling point after releasing a mutex
    int64_t maxSteps = 0;           // >0: abort as livelock after that many scheduling steps
};
void enable(const Options& o);
void disable();
int64_t nowNs(); void tick(int64_t ns);
int64_t stepCount(); int64_t eventCount(); int64_t switchCount(); int64_t spuriousCount();
uint64_t scheduleHash();
int threadId(); int threadCount(); bool threadBlocked(int id);
std::string threadStates();
void setDeadlockHandler(std::function<void(const char*)> f);
void setWakeHandler(std::function<void()> f);   // called by a thread that returns from a sleep
void waitSteps(int64_t n); void waitPred(std::function<bool()> p); void sleepNs(int64_t ns); void yield();
}
