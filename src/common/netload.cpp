// Runtime-selectable network data. Replaces the CMake-generated nndata.cpp (which INCBINs the
// repository's nndata.tbin.compr, an empty file in this tree): defines the same two symbols the
// evaluator reads, filled before main() from the file named by $VERIF_NET.
// No repository source is changed; Evaluate::EvalHashTables::initNetData() decompresses and
// loads this exactly as it would the embedded file.
#include <cstdio>
#include <cstdlib>
#include <cstring>

extern "C" {
alignas(64) unsigned char gNNDataData[24u << 20];
unsigned int gNNDataSize = 0;
}

namespace {
struct NetLoader {
    NetLoader() {
        const char* fn = getenv("VERIF_NET");
        if (!fn || !*fn)
            fn = "/verif/build/nets/material_1.compr";
        FILE* f = fopen(fn, "rb");
        if (!f) {
            if (getenv("VERIF_NET_OPTIONAL"))
                return;
            fprintf(stderr, "netload: cannot open %s\n", fn);
            _Exit(97);
        }
        size_t n = fread(gNNDataData, 1, sizeof(gNNDataData), f);
        fclose(f);
        gNNDataSize = (unsigned int)n;
    }
};
NetLoader netLoader __attribute__((init_priority(101)));
}
