// refchess: an independent implementation of the FIDE rules of chess (mailbox board, ray
// walking, copy-make). Shares no code and no tables with the engine under test. Used as the
// oracle by most monitors; validated against published perft numbers at the start of every run
// (selfTest()).
#pragma once
#include <cstdint>
#include <string>
#include <vector>

namespace ref {

// Piece codes (same numbering convention as FEN order KQRBNP; 0 = empty)
enum : int8_t { EMPTY = 0, WK = 1, WQ, WR, WB, WN, WP, BK, BQ, BR, BB, BN, BP };
inline bool isWhite(int p) { return p >= WK && p <= WP; }
inline bool isBlack(int p) { return p >= BK; }
inline int kindOf(int p) { return p == EMPTY ? 0 : (p - 1) % 6; } // 0 K,1 Q,2 R,3 B,4 N,5 P
enum { K_K = 0, K_Q, K_R, K_B, K_N, K_P };

// Squares: a1 = 0, b1 = 1, ..., h8 = 63
inline int fileOf(int s) { return s & 7; }
inline int rankOf(int s) { return s >> 3; }
inline int sq(int f, int r) { return r * 8 + f; }

enum { CW_LONG = 1, CW_SHORT = 2, CB_LONG = 4, CB_SHORT = 8 }; // a1, h1, a8, h8 rook rights

struct Mv {
    int8_t from = 0, to = 0, promo = 0; // promo: piece code of the right colour or EMPTY
    bool operator==(const Mv& o) const { return from == o.from && to == o.to && promo == o.promo; }
    bool operator<(const Mv& o) const {
        if (from != o.from) return from < o.from;
        if (to != o.to) return to < o.to;
        return promo < o.promo;
    }
};

struct Pos {
    int8_t b[64];
    bool wtm = true;
    int castle = 0;
    int ep = -1;        // square "behind" a pawn that just made a double step, or -1
    int hmc = 0;        // half-move clock
    int fullMove = 1;
    Pos();
    int kingSq(bool white) const;
    int count(int piece) const;
    int nMen() const;
};

std::string sqName(int s);
std::string mvStr(const Mv& m);          // UCI style e2e4, e7e8q
bool parseMv(const std::string& s, bool wtm, Mv& m);

/** Parse a FEN. Returns false on syntax errors. Does not judge legality of the position. */
bool parseFEN(const std::string& fen, Pos& p);
std::string toFEN(const Pos& p);
extern const char* const startFEN;

/** Is square s attacked by a piece of the given colour? */
bool attacked(const Pos& p, int s, bool byWhite);
bool inCheck(const Pos& p);              // side to move in check
bool otherInCheck(const Pos& p);         // side NOT to move in check (illegal position)
/** One king each, no pawns on rank 1/8, side not to move not in check. */
bool plausible(const Pos& p);

void genPseudo(const Pos& p, std::vector<Mv>& out);
void genLegal(const Pos& p, std::vector<Mv>& out);
bool isLegal(const Pos& p, const Mv& m);
/** Play a (pseudo-)legal move. ep is set after every double pawn step. */
Pos make(const Pos& p, const Mv& m);
bool isCapture(const Pos& p, const Mv& m);      // incl. en passant
bool isEnPassant(const Pos& p, const Mv& m);
bool isCastle(const Pos& p, const Mv& m);
/** Exists a legal en-passant capture in p? */
bool epLegal(const Pos& p);
/** Exists a pseudo-legal en-passant capture (enemy pawn adjacent to the pushed pawn)? */
bool epPseudo(const Pos& p);

bool isMate(const Pos& p);
bool isStalemate(const Pos& p);
uint64_t perft(const Pos& p, int depth);

/** FIDE position identity: board, side to move, castling rights, legally capturable e.p. */
std::string repKey(const Pos& p);

/** Dead position by material alone: K-K, K+minor-K, and K+bishops-K+bishops all on one colour. */
bool deadMaterial(const Pos& p);

/** Can the side to move force mate in at most n of its own moves (n >= 1)?
 *  nodes: in/out node budget; when it drops below 0 the result is meaningless (*aborted). */
bool matesIn(const Pos& p, int n, int64_t& nodes);
/** Is the side to move mated within n opponent moves against every defence (n >= 0)? */
bool lostIn(const Pos& p, int n, int64_t& nodes);
/** All legal moves that give mate at once. */
void mateIn1Moves(const Pos& p, std::vector<Mv>& out);

/** Perft self validation against published values. Returns empty string if all fine. */
std::string selfTest();

} // namespace ref
