// Synthetic network generator: fills the repository's NetData, save()s it and LZMA-encodes it
// exactly like torchutil does, so that the engine's own loader accepts it.
//   netgen <kind> <seed> <out>     kinds: zero material random-small random-wide extreme
#include "nntypes.hpp"
#include "chessError.hpp"
#include <fstream>
#include <sstream>
#include <iostream>
#include <vector>
#include <cstring>
extern "C" {
#include "Lzma86Enc.h"
}

static U64 rs;
static U64 rnd() { rs ^= rs << 13; rs ^= rs >> 7; rs ^= rs << 17; return rs; }
static int rint(int lo, int hi) { return lo + (int)(rnd() % (U64)(hi - lo + 1)); }

int main(int argc, char** argv) {
    if (argc < 4) { std::cerr << "usage: netgen kind seed out" << std::endl; return 2; }
    std::string kind = argv[1];
    U64 seed = std::stoull(argv[2]);
    std::string out = argv[3];
    rs = seed * 0x9E3779B97F4A7C15ull + 0x1234567ull; if (!rs) rs = 1;
    for (int i = 0; i < 10; i++) rnd();
    auto netP = NetData::create();
    NetData& net = *netP;
    constexpr int n1 = NetData::n1;
    memset((void*)&net.weight1, 0, sizeof(net.weight1));
    memset((void*)&net.bias1, 0, sizeof(net.bias1));
    memset((void*)&net.head[0], 0, sizeof(net.head));

    auto fillRandom = [&](int w1, int b1, int w2, int b2, int w3, int b3, int w4, int b4) {
        for (auto& w : net.weight1.data) w = (S16)rint(-w1, w1);
        for (auto& b : net.bias1.data) b = (S16)rint(-b1, b1);
        for (auto& h : net.head) {
            for (auto& w : h.lin2.weight.data) w = (S8)rint(-w2, w2);
            for (auto& b : h.lin2.bias.data) b = rint(-b2, b2);
            for (auto& w : h.lin3.weight.data) w = (S8)rint(-w3, w3);
            for (auto& b : h.lin3.bias.data) b = rint(-b3, b3);
            for (auto& w : h.lin4.weight.data) w = (S8)rint(-w4, w4);
            for (auto& b : h.lin4.bias.data) b = rint(-b4, b4);
        }
    };

    if (kind == "zero") {
    } else if (kind == "material") {
        // Neuron 0 of the first layer: 64 + 2*(own material - opponent material) in pawns,
        // passed through layers 2,3 on 16 parallel channels and amplified in layer 4
        // to ~100 cp per pawn. Remaining neurons: small random "positional" noise.
        const int val[5] = {18, 10, 6, 6, 2}; // Q R B N P (x2 pawns)
        for (int k = 0; k < 32; k++)
            for (int pt = 0; pt < 10; pt++)
                for (int sq = 0; sq < 64; sq++) {
                    int idx = (k * 10 + pt) * 64 + sq;
                    int v = val[pt % 5] * 4;
                    net.weight1(idx, 0) = (S16)(pt < 5 ? v : -v);
                    for (int j = 1; j < n1; j++)
                        net.weight1(idx, j) = (S16)rint(-24, 24);
                }
        net.bias1(0) = 64 * 4;
        for (int j = 1; j < n1; j++) net.bias1(j) = (S16)rint(0, 200);
        for (auto& h : net.head) {
            for (int i = 0; i < 16; i++) {
                h.lin2.weight(i, 0) = 64;
                h.lin3.weight(i, i) = 64;
                h.lin4.weight(0, i) = 127;
            }
            h.lin4.bias(0) = -64 * 127 * 16;
            for (int i = 16; i < NetData::n2; i++) {
                for (int j = 1; j < 2 * n1; j++) h.lin2.weight(i, j) = (S8)rint(-3, 3);
                h.lin2.bias(i) = rint(0, 2000);
                for (int j = 16; j < NetData::n2; j++) h.lin3.weight(i, j) = (S8)rint(-20, 20);
                h.lin3.bias(i) = rint(0, 2000);
                h.lin4.weight(0, i) = (S8)rint(-6, 6);
            }
        }
    } else if (kind == "random-small") {
        fillRandom(64, 128, 16, 1000, 32, 1000, 64, 1000);
    } else if (kind == "random-wide") {
        fillRandom(2000, 4000, 127, 100000, 127, 100000, 127, 200000);
    } else if (kind == "extreme") {
        // values at / near the type limits, to drive S16 accumulator wrap, packs saturation
        // and the >>6 clamps
        auto ext16 = [&]() -> S16 { int r = rint(0, 9); return r == 0 ? 32767 : r == 1 ? -32768 : r == 2 ? 16384 : r == 3 ? -16384 : (S16)rint(-600, 600); };
        auto ext8 = [&]() -> S8 { int r = rint(0, 5); return r == 0 ? 127 : r == 1 ? -128 : (S8)rint(-127, 127); };
        for (auto& w : net.weight1.data) w = ext16();
        for (auto& b : net.bias1.data) b = ext16();
        for (auto& h : net.head) {
            for (auto& w : h.lin2.weight.data) w = ext8();
            for (auto& b : h.lin2.bias.data) b = rint(-2000000, 2000000);
            for (auto& w : h.lin3.weight.data) w = ext8();
            for (auto& b : h.lin3.bias.data) b = rint(-500000, 500000);
            for (auto& w : h.lin4.weight.data) w = ext8();
            for (auto& b : h.lin4.bias.data) b = rint(-500000, 500000);
        }
    } else {
        std::cerr << "unknown kind" << std::endl; return 2;
    }
    std::stringstream ss;
    net.save(ss);
    std::string data = ss.str();
    size_t outSize = data.size() + data.size() / 4 + 65536;
    std::vector<unsigned char> compr(outSize);
    int res = Lzma86_Encode(compr.data(), &outSize, (unsigned char*)&data[0], data.size(),
                            1, 1 << 20, SZ_FILTER_NO);
    if (res != SZ_OK) { std::cerr << "compress fail " << res << std::endl; return 1; }
    std::ofstream os(out + ".tmp", std::ios::binary);
    os.write((char*)compr.data(), outSize);
    os.close();
    if (rename((out + ".tmp").c_str(), out.c_str()) != 0) return 1;
    std::cout << "netgen " << kind << " seed " << seed << " raw " << data.size() << " compr " << outSize << std::endl;
    return 0;
}
