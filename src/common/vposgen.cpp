#include "vposgen.hpp"
#include <algorithm>
#include <cstdlib>
#include <cstring>
#include <cstdio>

using namespace ref;
static const int knightD[8][2] = {{1,2},{2,1},{2,-1},{1,-2},{-1,-2},{-2,-1},{-2,1},{-1,2}};

namespace posgen {

const char* const templateNames[T_NTEMPLATES] = { "sparse", "dense", "pin", "doublecheck", "eppin", "castle", "promo", "discovered" };

const std::vector<std::string>& trickyFens() {
    static const std::vector<std::string> v = {
        "rnbqkbnr/pppppppp/8/8/8/8/PPPPPPPP/RNBQKBNR w KQkq - 0 1",
        "r3k2r/p1ppqpb1/bn2pnp1/3PN3/1p2P3/2N2Q1p/PPPBBPPP/R3K2R w KQkq - 0 1",
        "8/2p5/3p4/KP5r/1R3p1k/8/4P1P1/8 w - - 0 1",
        "r3k2r/Pppp1ppp/1b3nbN/nP6/BBP1P3/q4N2/Pp1P2PP/R2Q1RK1 w kq - 0 1",
        "r2q1rk1/pP1p2pp/Q4n2/bbp1p3/Np6/1B3NBn/pPPP1PPP/R3K2R b KQ - 0 1",
        "rnbq1k1r/pp1Pbppp/2p5/8/2B5/8/PPP1NnPP/RNBQK2R w KQ - 1 8",
        "r4rk1/1pp1qppp/p1np1n2/2b1p1B1/2B1P1b1/P1NP1N2/1PP1QPPP/R4RK1 w - - 0 10",
        "8/8/8/8/k2Pp2Q/8/8/3K4 b - d3 0 1",
        "8/8/8/2k5/2pP4/8/B7/4K3 b - d3 0 3",
        "8/8/1k6/2b5/2pP4/8/5K2/8 b - d3 0 1",
        "5k2/8/8/8/8/8/8/4K2R w K - 0 1",
        "3k4/8/8/8/8/8/8/R3K3 w Q - 0 1",
        "r3k2r/1b4bq/8/8/8/8/7B/R3K2R w KQkq - 0 1",
        "r3k2r/8/3Q4/8/8/5q2/8/R3K2R b KQkq - 0 1",
        "2K2r2/4P3/8/8/8/8/8/3k4 w - - 0 1",
        "8/8/1P2K3/8/2n5/1q6/8/5k2 b - - 0 1",
        "4k3/1P6/8/8/8/8/K7/8 w - - 0 1",
        "8/P1k5/K7/8/8/8/8/8 w - - 0 1",
        "K1k5/8/P7/8/8/8/8/8 w - - 0 1",
        "8/k1P5/8/1K6/8/8/8/8 w - - 0 1",
        "8/8/2k5/5q2/5n2/8/5K2/8 b - - 0 1",
        "r1bqkbnr/pppp1ppp/2n5/4p3/4P3/5N2/PPPP1PPP/RNBQKB1R w KQkq - 2 3",
        "rnbqkb1r/ppppp1pp/7n/4Pp2/8/8/PPPP1PPP/RNBQKBNR w KQkq f6 0 3",
        "rnb1kbnr/pp1pp1pp/1qp2p2/8/Q1P5/N7/PP1PPPPP/1RB1KBNR b Kkq - 2 4",
        "r3k1nr/ppp2ppp/2n5/3q4/1b1P4/2N2N2/PP2BPPP/R1BQ1RK1 b kq - 3 9",
        "1k6/1b6/8/8/7R/8/8/4K2R b K - 0 1",
        "3k4/3p4/8/K1P4r/8/8/8/8 b - - 0 1",
        "8/8/4k3/8/2p5/8/B2P2K1/8 w - - 0 1",
        "8/8/1k6/2b5/2pP4/8/5K2/8 b - d3 0 1",
        "5k2/8/8/8/8/8/8/4K2R w K - 0 1",
        "r3k2r/8/8/8/8/8/8/R3K2R w KQkq - 0 1",
        "r3k2r/8/8/8/8/8/8/R3K2R b KQkq - 0 1",
        "4k2r/6K1/8/8/8/8/8/8 b k - 0 1",
        "8/1n4N1/2k5/8/8/5K2/1N4n1/8 w - - 0 1",
        "8/PPP4k/8/8/8/8/4Kppp/8 w - - 0 1",
        "n1n5/PPPk4/8/8/8/8/4Kppp/5N1N b - - 0 1",
        "8/8/8/4k3/8/8/3Q4/K6r w - - 0 1",
        "q7/8/8/8/k2p3R/8/4P3/4K3 w - - 0 1",
        "7k/8/8/1pP5/8/8/8/R3K3 w Q b6 0 1",
        "8/8/8/8/kpP4R/8/8/4K3 b - c3 0 1",
        "rnbqkbnr/ppp1pppp/8/3pP3/8/8/PPPP1PPP/RNBQKBNR w KQkq d6 0 3",
        "2r1k2r/8/8/8/8/8/8/R3K2R w KQk - 0 1",
        "r3k2r/8/8/8/8/8/6p1/R3K2R b KQkq - 0 1",
        "8/5bk1/8/2Pp4/8/1K6/8/8 w - d6 0 1",
        "8/8/1k6/8/2pP4/8/5BK1/8 b - d3 0 1",
        "8/8/8/8/8/5k2/6p1/6K1 w - - 99 80",
        "6k1/8/6K1/8/8/8/8/R7 w - - 98 100",
    };
    return v;
}

const std::vector<std::string>& stormFens() {
    static const std::vector<std::string> v = {
        "8/PPPPPPPP/8/k7/7K/8/pppppppp/8 w - - 0 1",
        "3q4/PPPPPPPP/8/k7/7K/8/pppppppp/3Q4 w - - 0 1",
        "1n1q1b2/PPPPPPPP/8/k7/7K/8/pppppppp/1N1Q1B2 b - - 0 1",
        "8/1PPPPPP1/k7/8/8/7K/1pppppp1/8 w - - 0 1",
        "rnbqkbnr/pppppppp/8/8/8/8/PPPPPPPP/RNBQKBNR w KQkq - 0 1",
        "4k3/pppppppp/8/8/8/8/PPPPPPPP/4K3 w - - 0 1",
        "r2qk2r/8/8/pppppppp/PPPPPPPP/8/8/R2QK2R w KQkq - 0 1",
    };
    return v;
}

namespace { struct ListCheck { ListCheck() {
    for (auto* lst : { &trickyFens(), &stormFens() }) for (auto& f : *lst) { Pos p; if (!parseFEN(f, p) || !plausible(p) || !countsOk(p)) { fprintf(stderr, "posgen: bad built-in FEN %s\n", f.c_str()); _Exit(2); } }
} } listCheck; }

Mv pickMove(Rng& r, const Pos& p, const std::vector<Mv>& l, Style st) {
    if (st == UNIFORM) return l[r.below((int)l.size())];
    std::vector<int> w(l.size());
    long total = 0;
    for (size_t i = 0; i < l.size(); i++) {
        const Mv& m = l[i];
        int k = kindOf(p.b[m.from]);
        bool cap = isCapture(p, m);
        int wt = 10;
        if (st == TACTICAL) {
            if (cap) wt *= 3;
            if (isEnPassant(p, m)) wt *= 6;
            if (isCastle(p, m)) wt *= 10;
            if (m.promo) wt *= 5;
            if (k == K_P && std::abs(rankOf(m.to) - rankOf(m.from)) == 2) {
                int f = fileOf(m.to), rr = rankOf(m.to); int enemyP = p.wtm ? BP : WP;
                if ((f > 0 && p.b[sq(f - 1, rr)] == enemyP) || (f < 7 && p.b[sq(f + 1, rr)] == enemyP)) wt *= 6;
            }
            if (inCheck(make(p, m))) wt *= 3;
        } else if (st == STORM) {
            if (k == K_P) wt *= 8;
            if (m.promo) wt *= (kindOf(m.promo) == K_Q ? 20 : 3);
            if (cap && kindOf(p.b[m.to]) == K_Q) wt = 1;
            else if (cap && p.b[m.to] && kindOf(p.b[m.to]) != K_P) wt = 3;
            if (k == K_Q) wt = std::max(1, wt / 4);
        } else if (st == QUIET) {
            if (cap) wt = 1;
            if (isCastle(p, m)) wt *= 4;
        }
        w[i] = wt; total += wt;
    }
    long x = (long)(r.next() % (uint64_t)total);
    for (size_t i = 0; i < l.size(); i++) { x -= w[i]; if (x < 0) return l[i]; }
    return l.back();
}

Game randomGame(Rng& r, const Pos& start, int maxPlies, Style st) {
    Game g;
    g.pos.push_back(start);
    Pos p = start;
    for (int i = 0; i < maxPlies; i++) {
        std::vector<Mv> l; genLegal(p, l);
        if (l.empty()) break;
        Mv m = pickMove(r, p, l, st);
        p = make(p, m);
        g.moves.push_back(m);
        g.pos.push_back(p);
    }
    return g;
}

bool countsOk(const Pos& p) {
    int n[13] = {0};
    for (int s = 0; s < 64; s++) n[p.b[s]]++;
    if (n[WK] != 1 || n[BK] != 1) return false;
    for (int c = 0; c < 2; c++) {
        int o = c * 6;
        int pawns = n[WP + o];
        int tot = 1 + n[WQ + o] + n[WR + o] + n[WB + o] + n[WN + o] + pawns;
        if (pawns > 8 || tot > 16) return false;
        int promoted = std::max(0, n[WQ + o] - 1) + std::max(0, n[WR + o] - 2) + std::max(0, n[WB + o] - 2) + std::max(0, n[WN + o] - 2);
        if (promoted > 8 - pawns) return false;
    }
    int wk = p.kingSq(true), bk = p.kingSq(false);
    if (std::abs(fileOf(wk) - fileOf(bk)) <= 1 && std::abs(rankOf(wk) - rankOf(bk)) <= 1) return false;
    return true;
}

static int randEmpty(Rng& r, const Pos& p, int rlo = 0, int rhi = 7) {
    for (int t = 0; t < 200; t++) {
        int s = sq(r.below(8), r.range(rlo, rhi));
        if (!p.b[s]) return s;
    }
    return -1;
}

static void sprinkle(Rng& r, Pos& p, int nExtra) {
    static const int8_t pcs[] = { WQ, WR, WR, WB, WB, WN, WN, WP, WP, WP, WP, BQ, BR, BR, BB, BB, BN, BN, BP, BP, BP, BP };
    for (int i = 0; i < nExtra; i++) {
        int pc = pcs[r.below(sizeof(pcs))];
        bool pawn = kindOf(pc) == K_P;
        int s = randEmpty(r, p, pawn ? 1 : 0, pawn ? 6 : 7);
        if (s < 0) continue;
        p.b[s] = pc;
        if (!countsOk(p)) p.b[s] = EMPTY;
    }
}

static void finish(Rng& r, Pos& p) {
    // castling rights whenever king/rook at home (random subset, mostly all)
    p.castle = 0;
    if (p.b[4] == WK) { if (p.b[7] == WR && !r.chance(15)) p.castle |= CW_SHORT; if (p.b[0] == WR && !r.chance(15)) p.castle |= CW_LONG; }
    if (p.b[60] == BK) { if (p.b[63] == BR && !r.chance(15)) p.castle |= CB_SHORT; if (p.b[56] == BR && !r.chance(15)) p.castle |= CB_LONG; }
    // en passant square whenever geometrically plausible (pawn on 4th/5th with empty squares behind)
    if (p.ep < 0 && r.chance(60)) {
        std::vector<int> cand;
        for (int f = 0; f < 8; f++) {
            if (p.wtm) { if (p.b[sq(f, 4)] == BP && !p.b[sq(f, 5)] && !p.b[sq(f, 6)]) cand.push_back(sq(f, 5)); }
            else { if (p.b[sq(f, 3)] == WP && !p.b[sq(f, 2)] && !p.b[sq(f, 1)]) cand.push_back(sq(f, 2)); }
        }
        if (!cand.empty()) p.ep = cand[r.below((int)cand.size())];
    }
    p.hmc = r.chance(80) ? 0 : r.below(100);
    if (p.ep >= 0) p.hmc = 0;
    p.fullMove = 1 + r.below(80);
}

Pos synthetic(Rng& r, int templ) {
    for (;;) {
        Pos p;
        p.wtm = r.chance(50);
        bool w = p.wtm;
        int ownK = w ? WK : BK, oppK = w ? BK : WK;
        auto own = [&](int kind) { return (w ? WK : BK) + kind; };
        auto opp = [&](int kind) { return (w ? BK : WK) + kind; };
        int extra = 0;
        switch (templ) {
        case T_SPARSE: {
            p.b[randEmpty(r, p)] = WK; p.b[randEmpty(r, p)] = BK;
            extra = r.range(0, 6);
            break;
        }
        case T_DENSE: {
            p.b[randEmpty(r, p)] = WK; p.b[randEmpty(r, p)] = BK;
            extra = r.range(10, 30);
            break;
        }
        case T_PIN: case T_DISCOVERED: {
            // king, then a blocker and a slider along a ray. PIN: own king/own blocker/enemy slider.
            // DISCOVERED: enemy king / own blocker / own slider (moving the blocker gives check).
            int ks = sq(r.below(8), r.below(8));
            bool pin = templ == T_PIN;
            p.b[ks] = pin ? ownK : oppK;
            int d = r.below(8);
            static const int D[8][2] = {{1,0},{0,1},{-1,0},{0,-1},{1,1},{-1,1},{-1,-1},{1,-1}};
            int f = fileOf(ks), rr = rankOf(ks);
            int d1 = r.range(1, 3), d2 = d1 + r.range(1, 3);
            int f1 = f + D[d][0] * d1, r1 = rr + D[d][1] * d1, f2 = f + D[d][0] * d2, r2 = rr + D[d][1] * d2;
            if (f2 < 0 || f2 > 7 || r2 < 0 || r2 > 7) continue;
            int slider = d < 4 ? (r.chance(50) ? K_R : K_Q) : (r.chance(50) ? K_B : K_Q);
            static const int blk[] = { K_Q, K_R, K_B, K_N, K_P, K_P };
            int bk = blk[r.below(6)];
            if (bk == K_P && (r1 == 0 || r1 == 7)) bk = K_N;
            p.b[sq(f1, r1)] = own(bk);
            p.b[sq(f2, r2)] = pin ? opp(slider) : own(slider);
            int os = randEmpty(r, p); if (os < 0) continue;
            p.b[os] = pin ? oppK : ownK;
            extra = r.range(0, 12);
            break;
        }
        case T_DOUBLECHECK: {
            int ks = sq(r.below(8), r.below(8));
            p.b[ks] = ownK;
            int f = fileOf(ks), rr = rankOf(ks);
            // a knight check plus a slider check
            int kd = r.below(8);
            int nf = f + knightD[kd][0], nr = rr + knightD[kd][1];
            if (nf < 0 || nf > 7 || nr < 0 || nr > 7) continue;
            p.b[sq(nf, nr)] = opp(r.chance(70) ? K_N : K_P);
            if (kindOf(p.b[sq(nf, nr)]) == K_P && (nr == 0 || nr == 7)) p.b[sq(nf, nr)] = opp(K_N);
            static const int D[8][2] = {{1,0},{0,1},{-1,0},{0,-1},{1,1},{-1,1},{-1,-1},{1,-1}};
            int d = r.below(8), dist = r.range(1, 5);
            int sf = f + D[d][0] * dist, sr = rr + D[d][1] * dist;
            if (sf < 0 || sf > 7 || sr < 0 || sr > 7 || p.b[sq(sf, sr)]) continue;
            p.b[sq(sf, sr)] = opp(d < 4 ? (r.chance(50) ? K_R : K_Q) : (r.chance(50) ? K_B : K_Q));
            int os = randEmpty(r, p); if (os < 0) continue;
            p.b[os] = oppK;
            extra = r.range(0, 10);
            break;
        }
        case T_EPPIN: {
            // side to move has a pawn on its 5th rank next to an enemy pawn that "just" double-stepped;
            // king and an enemy rook/queen/bishop placed so that the capture may expose the king.
            int rk = w ? 4 : 3;
            int f = r.below(8), df = r.chance(50) ? 1 : -1;
            if (f + df < 0 || f + df > 7) continue;
            p.b[sq(f, rk)] = own(K_P);
            p.b[sq(f + df, rk)] = opp(K_P);
            p.ep = sq(f + df, w ? 5 : 2);
            int mode = r.below(6);
            if (mode >= 4) { // ENEMY king and OWN rook/queen on the rank of the two pawns: the e.p. capture clears the rank and gives check
                int kf = r.below(8), rf = r.below(8);
                if (p.b[sq(kf, rk)] || p.b[sq(rf, rk)] || kf == rf) continue;
                p.b[sq(kf, rk)] = oppK; p.b[sq(rf, rk)] = own(r.chance(50) ? K_R : K_Q);
                int ks = randEmpty(r, p); if (ks < 0) continue; p.b[ks] = ownK;
            } else
            if (mode == 0) { // king and rook on the same rank, outside the pawns
                int kf = r.below(8), rf = r.below(8);
                if (p.b[sq(kf, rk)] || p.b[sq(rf, rk)] || kf == rf) continue;
                p.b[sq(kf, rk)] = ownK; p.b[sq(rf, rk)] = opp(r.chance(50) ? K_R : K_Q);
            } else if (mode == 1) { // diagonal pin through the captured pawn's square or the capturing pawn
                int ks = randEmpty(r, p); if (ks < 0) continue; p.b[ks] = ownK;
                int bs = randEmpty(r, p); if (bs < 0) continue; p.b[bs] = opp(r.chance(50) ? K_B : K_Q);
            } else if (mode == 2) { // file pin on the capturing pawn
                int kr = r.below(8); if (p.b[sq(f, kr)]) continue; p.b[sq(f, kr)] = ownK;
                int rr2 = r.below(8); if (p.b[sq(f, rr2)]) continue; p.b[sq(f, rr2)] = opp(K_R);
            } else {
                int ks = randEmpty(r, p); if (ks < 0) continue; p.b[ks] = ownK;
            }
            if (mode < 4) { int os = randEmpty(r, p); if (os < 0) continue; p.b[os] = oppK; }
            // a second capturing pawn on the other side sometimes
            if (r.chance(30) && f + 2 * df >= 0 && f + 2 * df <= 7 && !p.b[sq(f + 2 * df, rk)]) p.b[sq(f + 2 * df, rk)] = own(K_P);
            extra = r.range(0, 8);
            break;
        }
        case T_CASTLE: {
            p.b[4] = WK; p.b[60] = BK;
            if (!r.chance(15)) p.b[0] = WR; if (!r.chance(15)) p.b[7] = WR;
            if (!r.chance(15)) p.b[56] = BR; if (!r.chance(15)) p.b[63] = BR;
            // attackers aimed at the first/last rank
            int n = r.range(0, 4);
            for (int i = 0; i < n; i++) {
                bool white = r.chance(50);
                int kind = (const int[]){K_R, K_B, K_Q, K_N}[r.below(4)];
                int s = sq(r.below(8), white ? r.range(3, 6) : r.range(1, 4));
                if (!p.b[s]) p.b[s] = (white ? WK : BK) + kind;
            }
            // sometimes pieces between king and rook
            if (r.chance(30)) { int s = (const int[]){1, 2, 3, 5, 6, 57, 58, 59, 61, 62}[r.below(10)]; p.b[s] = s < 8 ? WN : BN; }
            extra = r.range(0, 8);
            break;
        }
        case T_PROMO: {
            p.b[randEmpty(r, p)] = WK; p.b[randEmpty(r, p)] = BK;
            int n = r.range(1, 4);
            for (int i = 0; i < n; i++) {
                int f = r.below(8);
                int s = sq(f, w ? 6 : 1);
                if (p.b[s]) continue;
                p.b[s] = own(K_P);
                for (int df = -1; df <= 1; df++) {
                    if (f + df < 0 || f + df > 7 || !r.chance(50)) continue;
                    int t = sq(f + df, w ? 7 : 0);
                    if (!p.b[t]) p.b[t] = opp((const int[]){K_R, K_N, K_B, K_Q}[r.below(4)]);
                }
            }
            extra = r.range(0, 10);
            break;
        }
        }
        if (p.count(WK) != 1 || p.count(BK) != 1) continue;
        if (!countsOk(p)) continue;
        sprinkle(r, p, extra);
        int savedEp = p.ep;
        finish(r, p);
        if (savedEp >= 0) { p.ep = savedEp; p.hmc = 0; }
        if (p.ep >= 0) {
            // the pawn that double-stepped must be there and the squares behind it empty
            int f = fileOf(p.ep);
            bool ok = p.wtm ? (rankOf(p.ep) == 5 && p.b[sq(f, 4)] == BP && !p.b[sq(f, 5)] && !p.b[sq(f, 6)])
                            : (rankOf(p.ep) == 2 && p.b[sq(f, 3)] == WP && !p.b[sq(f, 2)] && !p.b[sq(f, 1)]);
            if (!ok) p.ep = -1;
        }
        if (!plausible(p) || !countsOk(p)) continue;
        return p;
    }
}

bool reversible(const Pos& p, const Mv& m) { return !isCapture(p, m) && kindOf(p.b[m.from]) != K_P; }
static bool keepsRights(const Pos& p, const Mv& m) { return make(p, m).castle == p.castle; }

bool findCycle(Rng& r, const Pos& p, Mv out[4]) {
    std::vector<Mv> la; genLegal(p, la);
    for (int tries = 0; tries < 60; tries++) {
        if (la.empty()) return false;
        Mv a = la[r.below((int)la.size())];
        if (!reversible(p, a) || !keepsRights(p, a)) continue;
        Pos p1 = make(p, a);
        std::vector<Mv> lb; genLegal(p1, lb); if (lb.empty()) continue;
        Mv b = lb[r.below((int)lb.size())];
        if (!reversible(p1, b) || !keepsRights(p1, b)) continue;
        Pos p2 = make(p1, b);
        Mv ar; ar.from = a.to; ar.to = a.from; ar.promo = 0;
        if (!isLegal(p2, ar) || !reversible(p2, ar)) continue;
        Pos p3 = make(p2, ar);
        Mv br; br.from = b.to; br.to = b.from; br.promo = 0;
        if (!isLegal(p3, br) || !reversible(p3, br)) continue;
        Pos p4 = make(p3, br);
        if (repKey(p4) != repKey(p)) continue;
        out[0] = a; out[1] = b; out[2] = ar; out[3] = br;
        return true;
    }
    return false;
}

bool epPinnedPush(Rng& r, Pos& p, Mv& push) {
    bool whitePush = r.chance(50);
    p = Pos(); p.wtm = whitePush;
    int rk = whitePush ? 3 : 4;             // rank where the pushed pawn lands; enemy pawn and enemy king stand there
    int pf = r.range(1, 6);                 // file of the pushing pawn
    int ef = pf + (r.chance(50) ? 1 : -1);  // enemy pawn file
    int lo = std::min(pf, ef), hi = std::max(pf, ef);
    bool kingLeft = r.chance(50);
    if ((kingLeft && (lo - 1 < 0 || hi + 1 > 7)) || (!kingLeft && (lo - 1 < 0 || hi + 1 > 7))) return false;
    int kf = kingLeft ? r.range(0, lo - 1) : r.range(hi + 1, 7);
    int sf = kingLeft ? r.range(hi + 1, 7) : r.range(0, lo - 1);
    int own = whitePush ? 0 : 6, opp = whitePush ? 6 : 0;
    p.b[sq(pf, whitePush ? 1 : 6)] = WP + own;
    p.b[sq(ef, rk)] = WP + opp;
    p.b[sq(kf, rk)] = WK + opp;
    p.b[sq(sf, rk)] = (r.chance(50) ? WR : WQ) + own;
    for (int t = 0; t < 50; t++) { int s = sq(r.below(8), whitePush ? 0 : 7); if (!p.b[s]) { p.b[s] = WK + own; break; } }
    int extra = r.range(0, 3);
    for (int i = 0; i < extra; i++) { int s = r.below(64); if (p.b[s] || rankOf(s) == rk || rankOf(s) == (whitePush ? 2 : 5) || rankOf(s) == 0 || rankOf(s) == 7) continue;
        p.b[s] = (r.chance(50) ? WK : BK) + (const int[]){K_B, K_N, K_P}[r.below(3)]; }
    p.hmc = r.below(20); p.fullMove = 10;
    if (!plausible(p) || !countsOk(p)) return false;
    push.from = sq(pf, whitePush ? 1 : 6); push.to = sq(pf, rk); push.promo = 0;
    if (!isLegal(p, push)) return false;
    Pos x = make(p, push);
    if (!epPseudo(x) || epLegal(x)) return false;
    return true;
}

Features features(const Pos& p) {
    Features ft;
    bool w = p.wtm;
    int ks = p.kingSq(w);
    // count checkers
    int checkers = 0;
    if (ks >= 0) {
        for (int s = 0; s < 64; s++) {
            int pc = p.b[s];
            if (!pc || isWhite(pc) == w) continue;
            Pos q; q.b[ks] = p.b[ks]; q.wtm = w;
            // does piece on s alone attack ks given real occupancy? remove all other enemy pieces
            Pos t = p;
            for (int u = 0; u < 64; u++) if (u != s && t.b[u] && isWhite(t.b[u]) != w) t.b[u] = EMPTY;
            // keep blockers of the real board: enemy pieces removed could unblock; so re-add them as own-colour blockers
            for (int u = 0; u < 64; u++) if (u != s && p.b[u] && isWhite(p.b[u]) != w && kindOf(p.b[u]) != K_K) t.b[u] = w ? WP : BP;
            // pawns used as blockers must not stand on rank 1/8 issue: harmless for attacked()
            if (attacked(t, ks, !w)) checkers++;
        }
    }
    ft.inCheck = checkers > 0;
    ft.doubleCheck = checkers > 1;
    std::vector<Mv> ps, lg;
    genPseudo(p, ps); genLegal(p, lg);
    // pinned: a pseudo-legal non-king move that is illegal while not in check
    if (!ft.inCheck)
        for (const Mv& m : ps) if (kindOf(p.b[m.from]) != K_K && std::find(lg.begin(), lg.end(), m) == lg.end()) { ft.pinned = true; break; }
    bool epPs = false, epLg = false;
    for (const Mv& m : ps) if (isEnPassant(p, m)) epPs = true;
    for (const Mv& m : lg) { if (isEnPassant(p, m)) epLg = true; if (m.promo) ft.promoAvail = true; if (isCastle(p, m)) ft.castleAvail = true; }
    ft.epAvail = epLg; ft.epPseudoOnly = epPs && !epLg;
    // castling right present, path empty, but not allowed: attack on the path
    int home = w ? 4 : 60;
    if (p.b[home] == (w ? WK : BK)) {
        int shortR = w ? CW_SHORT : CB_SHORT, longR = w ? CW_LONG : CB_LONG;
        bool sOk = false, lOk = false;
        for (const Mv& m : lg) if (isCastle(p, m)) { if (m.to > m.from) sOk = true; else lOk = true; }
        if ((p.castle & shortR) && !p.b[home + 1] && !p.b[home + 2] && p.b[home + 3] == (w ? WR : BR) && !sOk) ft.castleBlockedByAttack = true;
        if ((p.castle & longR) && !p.b[home - 1] && !p.b[home - 2] && !p.b[home - 3] && p.b[home - 4] == (w ? WR : BR) && !lOk) ft.castleBlockedByAttack = true;
    }
    return ft;
}

} // namespace posgen
