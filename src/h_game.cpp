// h_game: console game mode (class Game) against a reference model of FIDE claims and game-over
// states built on refchess (C11 part 2).   h_game <seed> <ngames>
#include "hcommon.hpp"
#include "vposgen.hpp"
#include "game.hpp"
#include "player.hpp"
#include <sstream>
#include <iostream>

using namespace hc;
using posgen::Rng;
static Report rep;

struct StubPlayer : Player {
    std::string getCommand(const Position&, bool, const std::vector<Position>&) override { return "quit"; }
    bool isHumanPlayer() override { return true; }
    void useBook(bool) override {}
    void timeLimit(int, int) override {}
    void clearTT() override {}
};

enum MState { ALIVE, WHITE_MATE, BLACK_MATE, WHITE_STALEMATE, BLACK_STALEMATE, DRAW_REP, DRAW_50, DRAW_NO_MATE, DRAW_AGREE, RESIGN_WHITE, RESIGN_BLACK };
static const char* const stateNames[] = { "ALIVE", "WHITE_MATE", "BLACK_MATE", "WHITE_STALEMATE", "BLACK_STALEMATE", "DRAW_REP", "DRAW_50", "DRAW_NO_MATE", "DRAW_AGREE", "RESIGN_WHITE", "RESIGN_BLACK" };

static int engState(Game& g) {
    switch (g.getGameState()) {
    case Game::ALIVE: return ALIVE; case Game::WHITE_MATE: return WHITE_MATE; case Game::BLACK_MATE: return BLACK_MATE;
    case Game::WHITE_STALEMATE: return WHITE_STALEMATE; case Game::BLACK_STALEMATE: return BLACK_STALEMATE;
    case Game::DRAW_REP: return DRAW_REP; case Game::DRAW_50: return DRAW_50; case Game::DRAW_NO_MATE: return DRAW_NO_MATE;
    case Game::DRAW_AGREE: return DRAW_AGREE; case Game::RESIGN_WHITE: return RESIGN_WHITE; case Game::RESIGN_BLACK: return RESIGN_BLACK;
    }
    return -1;
}

// Reference model ------------------------------------------------------------------------------
struct Model {
    std::vector<ref::Pos> pos;      // pos[0] start; pos[i+1] after move i
    std::vector<ref::Mv> moves;
    std::vector<bool> offers;
    int cur = 0;
    bool pending = false;
    int drawState = ALIVE, resignState = ALIVE;

    void reset(const ref::Pos& p) { pos.assign(1, p); moves.clear(); offers.clear(); cur = 0; pending = false; drawState = resignState = ALIVE; }
    const ref::Pos& now() const { return pos[cur]; }
    int state() const {
        const ref::Pos& p = now();
        std::vector<ref::Mv> l; ref::genLegal(p, l);
        if (l.empty()) { if (ref::inCheck(p)) return p.wtm ? BLACK_MATE : WHITE_MATE; return p.wtm ? WHITE_STALEMATE : BLACK_STALEMATE; }
        if (ref::deadMaterial(p)) return DRAW_NO_MATE;
        if (resignState != ALIVE) return resignState;
        return drawState;
    }
    bool play(const ref::Mv& m) {
        if (state() != ALIVE || !ref::isLegal(now(), m)) return false;
        pos.resize(cur + 1); moves.resize(cur); offers.resize(cur);
        pos.push_back(ref::make(now(), m)); moves.push_back(m); offers.push_back(pending);
        pending = false; cur++;
        return true;
    }
    void undo() { if (cur > 0) { cur--; pending = false; drawState = resignState = ALIVE; } }
    void redo() { if (cur < (int)moves.size()) { cur++; pending = false; } }
    bool haveOffer() const { return cur > 0 && offers[cur - 1]; }
    void claim(bool repClaim, bool withMove, const ref::Mv& m) {
        if (state() != ALIVE) return;
        bool legal = withMove && ref::isLegal(now(), m);
        ref::Pos target = legal ? ref::make(now(), m) : now();
        bool valid;
        if (repClaim) {
            std::string k = ref::repKey(target);
            int n = legal ? 1 : 0;
            for (int i = 0; i <= cur; i++) if (ref::repKey(pos[i]) == k) n++;
            valid = n >= 3;
        } else valid = target.hmc >= 100;
        if (valid) drawState = repClaim ? DRAW_REP : DRAW_50;
        else { pending = true; if (legal) play(m); }
    }
    void offer(const ref::Mv& m) { pending = true; if (ref::isLegal(now(), m)) play(m); }
    void accept() { if (state() != ALIVE) return; if (haveOffer()) drawState = DRAW_AGREE; }
    void resign() { if (state() == ALIVE) resignState = now().wtm ? RESIGN_WHITE : RESIGN_BLACK; }
};

static std::string san(Game& g, const ref::Mv& m) { return TextIO::moveToString(g.getPos(), toEng(m), false); }

static void compare(Game& g, Model& M, const std::string& hist) {
    rep.add("commands");
    int a = engState(g), b = M.state();
    if (a != b) rep.viol("game-state", hist + " => engine " + stateNames[a] + " model " + stateNames[b]);
    if (g.haveDrawOffer() != M.haveOffer()) rep.viol("draw-offer-flag", hist);
    ref::Pos ep = toRef(g.getPos());
    const ref::Pos& mp = M.now();
    if (memcmp(ep.b, mp.b, 64) != 0 || ep.wtm != mp.wtm || ep.castle != mp.castle || ep.hmc != mp.hmc)
        rep.viol("game-position", hist + " engine " + TextIO::toFEN(g.getPos()) + " model " + ref::toFEN(mp));
    rep.stat[std::string("state_") + stateNames[b]]++;
}

int main(int argc, char** argv) {
    requireSelfTest();
    ComputerPlayer::initEngine();
    uint64_t seed = (uint64_t)argLL(argc, argv, 1, 1);
    long long ngames = argLL(argc, argv, 2, 100);
    Rng r(seed);
    std::vector<ref::Pos> tricky;
    for (auto& f : posgen::trickyFens()) { ref::Pos p; ref::parseFEN(f, p); tricky.push_back(p); }
    // silence the console chatter of Game ("Nothing to undo" ...)
    std::ostringstream sink; std::streambuf* old = std::cout.rdbuf(sink.rdbuf());
    for (long long gi = 0; gi < ngames; gi++) {
        Game g(std::unique_ptr<Player>(new StubPlayer), std::unique_ptr<Player>(new StubPlayer));
        Model M; ref::Pos start; ref::parseFEN(ref::startFEN, start); M.reset(start);
        std::string hist = "new";
        auto cmd = [&](const std::string& c) { hist += " ; " + c; setCrumb(hist); g.processString(c); sink.str(""); };
        int k = r.below(10);
        if (k >= 4) {
            // setpos: tricky position, sparse endgame, or high half-move clock
            ref::Pos p;
            if (k < 6) p = tricky[r.below((int)tricky.size())];
            else if (k < 8) { p = posgen::synthetic(r, posgen::T_SPARSE); }
            else { posgen::Game rg = posgen::randomGame(r, tricky[0], r.range(10, 80), posgen::QUIET); p = rg.pos.back(); p.hmc = r.range(88, 99); }
            if (!ref::epLegal(p)) p.ep = -1;
            Position tmp;
            if (readFEN(ref::toFEN(p), tmp)) { cmd("setpos " + ref::toFEN(p)); M.reset(p); }
        }
        compare(g, M, hist);
        if (gi % 8 == 3) {
            // directed: double push leaving an uncapturable e.p. square, optionally undo/redo, then two cycles and a claim
            ref::Pos p; ref::Mv push, c[4];
            bool ok = false;
            for (int t = 0; t < 200 && !ok; t++) ok = posgen::epPinnedPush(r, p, push) && posgen::findCycle(r, ref::make(p, push), c);
            Position tmp;
            if (ok && readFEN(ref::toFEN(p), tmp)) {
                hist = "new";
                cmd("setpos " + ref::toFEN(p)); M.reset(p);
                cmd(san(g, push)); M.play(push); compare(g, M, hist);
                if (r.chance(60)) { cmd("undo"); M.undo(); compare(g, M, hist); cmd("redo"); M.redo(); compare(g, M, hist); }
                bool stillOk = true;
                for (int rp = 0; rp < 2 && stillOk; rp++) for (int i = 0; i < 4; i++) {
                    if (rp == 1 && i == 3) break;
                    if (M.state() != ALIVE) { stillOk = false; break; }
                    cmd(san(g, c[i])); M.play(c[i]); compare(g, M, hist);
                }
                if (stillOk && M.state() == ALIVE) { cmd("draw rep " + san(g, c[3])); M.claim(true, true, c[3]); compare(g, M, hist); rep.add("directed_ep_rep_claims"); }
                rep.add("games"); rep.distinct.insert(fnv(hist));
                continue;
            }
        }
        int len = r.range(5, 120);
        ref::Mv cyc[4]; int cycPos = -1; int cycLeft = 0;
        for (int step = 0; step < len; step++) {
            std::vector<ref::Mv> l; ref::genLegal(M.now(), l);
            int a = r.below(100);
            auto randMove = [&]() -> ref::Mv {
                // prefer reversible moves that shuffle, to create repetitions
                if (!l.empty() && r.chance(70)) {
                    std::vector<ref::Mv> rv; for (auto& m : l) if (!ref::isCapture(M.now(), m) && ref::kindOf(M.now().b[m.from]) != ref::K_P) rv.push_back(m);
                    if (!rv.empty()) {
                        // undo the move made two plies ago when possible (creates repetitions quickly)
                        if (M.cur >= 2 && r.chance(60)) { ref::Mv pm = M.moves[M.cur - 2]; ref::Mv back; back.from = pm.to; back.to = pm.from; back.promo = 0;
                            for (auto& m : rv) if (m == back) return m; }
                        return rv[r.below((int)rv.size())];
                    }
                }
                return l[r.below((int)l.size())];
            };
            (void)cyc; (void)cycPos; (void)cycLeft;
            if (a < 62) {
                if (l.empty()) { cmd("undo"); M.undo(); }
                else if (M.state() != ALIVE) { ref::Mv m = randMove(); cmd(san(g, m)); /* rejected: game over */ }
                else { ref::Mv m = randMove(); cmd(san(g, m)); M.play(m); }
            } else if (a < 68) { cmd("undo"); M.undo(); }
            else if (a < 72) { cmd("redo"); M.redo(); }
            else if (a < 84) {
                bool repc = r.chance(60); bool with = !l.empty() && r.chance(60);
                ref::Mv m; if (with) m = randMove();
                std::string c = std::string("draw ") + (repc ? "rep" : "50") + (with ? " " + san(g, m) : "");
                cmd(c); M.claim(repc, with, m);
            } else if (a < 88 && !l.empty()) { ref::Mv m = randMove(); bool alive = M.state() == ALIVE; cmd("draw offer " + san(g, m)); if (alive) M.offer(m); }
            else if (a < 92) { cmd("draw accept"); M.accept(); }
            else if (a < 94) { cmd("resign"); M.resign(); }
            else if (a < 95) { cmd("draw rep"); M.claim(true, false, ref::Mv()); rep.add("claims_without_a_move"); }   // a failed claim leaves an offer that is not attached to any move
            else if (a < 97) {
                // a new game in the middle of the old one: nothing of the old game (pending offer, claims, resignation) may survive
                if (r.chance(50)) { cmd("new"); ref::Pos st; ref::parseFEN(ref::startFEN, st); M.reset(st); }
                else { ref::Pos p2 = tricky[r.below((int)tricky.size())]; if (!ref::epLegal(p2)) p2.ep = -1; Position t2; if (readFEN(ref::toFEN(p2), t2)) { cmd("setpos " + ref::toFEN(p2)); M.reset(p2); } }
                rep.add("new_games_mid_history");
            }
            else { cmd("swap"); }
            int v0 = rep.nViol;
            compare(g, M, hist);
            // after a disagreement engine and model are in different positions: formatting the model's next move in the engine's position
            // is meaningless (and the engine's formatter need not terminate on a move that is not legal there), so the game ends here
            if (rep.nViol > v0) break;
        }
        rep.add("games");
        rep.distinct.insert(fnv(hist));
        if (gi % 97 == 5) rep.sample(hist.substr(0, 400));
        if (rep.nViol > 10) break;
    }
    std::cout.rdbuf(old);
    rep.finish(argc > 3 ? argv[3] : nullptr);
    return 0;
}
