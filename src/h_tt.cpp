// h_tt: transposition table monitors (C08).
//   h_tt hammer <seed> <threads> <opsPerThread> <nBuckets> <keysPerBucket>
//   h_tt ply    <seed>
//   h_tt bounds <seed> <shard> <nshards> <maxEntriesLog2>
//   h_tt tbregion <seed> <nops>
#include "transpositionTable.hpp"
#include "position.hpp"
#include "textio.hpp"
#include "computerPlayer.hpp"
#include "constants.hpp"
#include "tbgen.hpp"
#include <atomic>
#include <thread>
#include <vector>
#include <map>
#include <string>
#include <cstdio>
#include <cstring>
#include <cstdlib>
#include <csignal>
#include <unistd.h>

extern "C" void __sanitizer_set_death_callback(void (*)(void)) __attribute__((weak));
static char crumb[4096];
static void dumpCrumb() { if (*crumb) { (void)!write(2, "\nCRUMB ", 7); (void)!write(2, crumb, strlen(crumb)); (void)!write(2, "\n", 1); } }
extern "C" __attribute__((weak)) void __ubsan_on_report() { dumpCrumb(); }
static void onSig(int s) { dumpCrumb(); signal(s, SIG_DFL); raise(s); }

static std::map<std::string, long long> stat;
static std::atomic<int> nViol(0);
static void viol(const std::string& kind, const std::string& w) { int n = ++nViol; if (n <= 20) { printf("VIOL %s | %s\n", kind.c_str(), w.c_str()); fflush(stdout); } }
static void finish() { stat["violations"] = nViol; for (auto& kv : stat) printf("STAT %s %lld\n", kv.first.c_str(), kv.second); fflush(stdout); }

struct Rng { uint64_t s; uint64_t next() { s ^= s << 13; s ^= s >> 7; s ^= s << 17; return s * 0x2545F4914F6CDD1Dull; } int below(int n) { return (int)(next() % (uint64_t)n); } };
static uint64_t mix(uint64_t x) { x ^= x >> 33; x *= 0xff51afd7ed558ccdULL; x ^= x >> 33; x *= 0xc4ceb9fe1a85ec53ULL; x ^= x >> 33; return x; }

// The record stored for (key, nonce): everything except generation/busy is a fixed function of (key, nonce).
struct Rec { Move m; int score, depth, type, eval; };
static Rec recFor(uint64_t key, int nonce) {
    uint64_t h = mix(key * 0x9E3779B97F4A7C15ull + (uint64_t)nonce * 0xD1B54A32D192ED03ull + 1);
    Rec r;
    int from = (int)(h & 63), to = (int)((h >> 6) & 63);
    if (to == from) to = (to + 1) & 63;
    int promo = (int)((h >> 12) % 13);
    r.m = Move(Square(from), Square(to), promo);
    r.score = (int)((h >> 16) % 30001) - 15000;        // outside the mate band: no ply adjustment
    r.depth = (int)((h >> 32) % 512);
    r.type = 1 + (int)((h >> 41) % 3);
    r.eval = (int)(int16_t)(uint16_t)nonce;
    return r;
}

static std::string entStr(const TranspositionTable::TTEntry& e, uint64_t key) {
    Move m; e.getMove(m);
    char buf[256];
    snprintf(buf, sizeof(buf), "key %016llx -> move %d-%d/%d score %d depth %d type %d eval %d gen %d busy %d", (unsigned long long)key,
             m.from().asInt(), m.to().asInt(), m.promoteTo(), e.getScore(0), e.getDepth(), e.getType(), e.getEvalScore(), e.getGeneration(), (int)e.getBusy());
    return buf;
}

static int runHammer(uint64_t seed, int threads, long long ops, int nBuckets, int keysPer) {
    TranspositionTable tt(1 << 16);
    // keys: same top-16 and low-16 bits per bucket (=> same bucket for this size), different middle bits
    std::vector<uint64_t> keys;
    long long nTwins = 0;
    Rng r0{seed * 77 + 5};
    for (int b = 0; b < nBuckets; b++) {
        uint64_t top = r0.next() & 0xffff000000000000ull, low = r0.next() & 0xfffcull;
        for (int k = 0; k < keysPer; k++) {
            // every second key is the "twin" of the key before it: it differs by exactly the data-word bits that one in-place field
            // update (generation refresh at a probe hit, busy flag, bound type) changes. A slot holds key^data and data: rewriting
            // only one of the two words makes the slot validate for such a twin and return a record never stored for it (seeded C08-G)
            // Only in the single-threaded configuration: with several threads a reader can legitimately see the two words of a
            // slot from two different whole-entry stores (that is what the key^data encoding is for), and would decode exactly such
            // a twin - a collision that needs two keys 4 bits apart in one bucket and is not a defect of the table.
            if (threads == 1 && (k & 1) && !keys.empty()) {
                TranspositionTable::TTEntry ea, eb;
                int which = r0.below(4);
                if (which <= 1) { ea.setGeneration(r0.below(16)); eb.setGeneration((ea.getGeneration() + 1 + r0.below(15)) & 15); }
                else if (which == 2) { ea.setBusy(false); eb.setBusy(true); }
                else { ea.setType(1 + r0.below(3)); eb.setType(1 + (ea.getType() + r0.below(2)) % 3); }
                uint64_t d = ea.getData() ^ eb.getData();
                if (d != 0 && (d & ~0x0000ffffffff0000ull) == 0) { keys.push_back(keys.back() ^ d); nTwins++; continue; }
            }
            keys.push_back(top | ((r0.next() & 0xffffffffull) << 16) | low);
        }
    }
    std::atomic<long long> hits(0), misses(0), inserts(0), gens(0);
    // The engine changes the generation only between searches (no thread is probing then), so the harness does
    // the same: 8 phases with a generation change at each quiescent point.
    const int phases = 8;
    for (int phase = 0; phase < phases; phase++) {
    std::vector<std::thread> ts;
    for (int t = 0; t < threads; t++) ts.emplace_back([&, t]() {
        Rng r{seed * 1000 + t + 1 + 7919ull * phase}; for (int i = 0; i < 4; i++) r.next();
        long long h = 0, ms = 0, ins = 0, g = 0;
        for (long long i = 0; i < ops / phases; i++) {
            uint64_t key = keys[r.below((int)keys.size())];
            int op = r.below(100);
            if (op < 45) {
                int nonce = r.below(65536);
                if (r.below(64) == 0) nonce = 32769;        // evaluation -32767 = UNKNOWN_SCORE, what the search stores for nodes in check
                Rec rc = recFor(key, nonce);
                Move m = rc.m; m.setScore(rc.score);
                tt.insert(key, m, rc.type, r.below(64), rc.depth, rc.eval);
                ins++;
            } else {
                TranspositionTable::TTEntry e;
                tt.probe(key, e);
                if (e.getType() == TType::T_EMPTY) { ms++; continue; }
                h++;
                Rec rc = recFor(key, (uint16_t)e.getEvalScore());
                Move m; e.getMove(m);
                if (!(m == rc.m) || e.getScore(r.below(64)) != rc.score || e.getDepth() != rc.depth || e.getType() != rc.type)
                    viol("mixed-record", entStr(e, key) + " is not a record stored as one unit for that key");
            }
        }
        hits += h; misses += ms; inserts += ins; gens += g;
    });
    for (auto& t : ts) t.join();
    tt.nextGeneration(); gens++;
    }
    stat["hammer_hits"] = hits; stat["hammer_misses"] = misses; stat["hammer_inserts"] = inserts; stat["hammer_generations"] = gens;
    stat["hammer_twin_keys"] = nTwins; stat["hammer_threads"] = threads; stat["hammer_keys"] = (long long)keys.size(); stat["hammer_buckets"] = nBuckets;
    printf("SAMPLE hammer: %d threads, %d buckets x %d keys, %lld hits verified, %lld misses, %lld inserts\n", threads, nBuckets, keysPer, (long long)hits, (long long)misses, (long long)inserts);
    finish();
    return 0;
}

static int runPly(uint64_t seed) {
    using namespace SearchConst;
    TranspositionTable tt(1 << 12);
    Rng r{seed * 31 + 7};
    long long n = 0, nBusy = 0;
    std::vector<int> scores;
    for (int s = MATE0 - 260; s <= MATE0; s++) { scores.push_back(s); scores.push_back(-s); }
    for (int s = MATE0 / 2 - 3; s <= MATE0 / 2 + 260; s++) { scores.push_back(s); scores.push_back(-s); }
    for (int s = -300; s <= 300; s += 7) scores.push_back(s);
    for (int i = 0; i < 3000; i++) scores.push_back(r.below(2 * MATE0 + 1) - MATE0);
    for (int s : scores) for (int p1 = 0; p1 <= 128; p1 += (p1 < 8 ? 1 : 5)) for (int p2 = 0; p2 <= 128; p2 += (p2 < 8 ? 1 : 7)) {
        // domain of the engine: a win score at ply p is at most MATE0 - p (can't mate before the current ply)
        if (isWinScore(s) && s > MATE0 - p1) continue;
        if (isLoseScore(s) && -s > MATE0 - p1) continue;
        uint64_t key = r.next();
        Move m(Square(1), Square(2), 0); m.setScore(s);
        snprintf(crumb, sizeof(crumb), "ply score %d p1 %d p2 %d", s, p1, p2);
        tt.insert(key, m, TType::T_EXACT, p1, 5, 0);
        TranspositionTable::TTEntry e; tt.probe(key, e);
        if (e.getType() == TType::T_EMPTY) { viol("lost-entry", crumb); continue; }
        int got = e.getScore(p2);
        int want = isWinScore(s) ? s + p1 - p2 : isLoseScore(s) ? s - p1 + p2 : s;
        // reading back at a ply where the shifted score leaves the mate band is outside what the search does (p2 such that mate distance < 0)
        n++;
        if (got != want) viol("ply-shift", std::string(crumb) + " got " + std::to_string(got) + " want " + std::to_string(want));
        // marking the entry busy re-stores it (the search does that at ply p2 for deep nodes): the record must stay the same unit, the
        // score read back at any ply still shifted by exactly the ply difference to the original store
        // (domain: real mate distances up to 300 plies and ordinary scores well inside the non-mate band; a score that leaves its band
        // when shifted is outside what the search produces)
        const int a = s < 0 ? -s : s;
        if ((n & 3) == 0 && (a >= MATE0 - 300 || a < MATE0 / 2 - 300) && (!isWinScore(s) || s + p1 - p2 <= MATE0) && (!isLoseScore(s) || -s + p1 - p2 <= MATE0)) {
            tt.setBusy(e, p2);
            TranspositionTable::TTEntry b; tt.probe(key, b);
            if (b.getType() == TType::T_EMPTY) { viol("lost-entry-after-setBusy", crumb); continue; }
            int p3 = (p2 * 7 + 3) % 129;
            bool p3ok = !(isWinScore(s) && s + p1 - p3 > MATE0) && !(isLoseScore(s) && -s + p1 - p3 > MATE0);
            int got2 = b.getScore(p2), got3 = b.getScore(p3);
            int want3 = isWinScore(s) ? s + p1 - p3 : isLoseScore(s) ? s - p1 + p3 : s;
            Move m1, m2; e.getMove(m1); b.getMove(m2);
            nBusy++;
            if (got2 != want || (p3ok && got3 != want3) || !b.getBusy() || b.getDepth() != e.getDepth() || b.getType() != e.getType() || b.getEvalScore() != e.getEvalScore() || !(m1 == m2))
                viol("record-changed-by-setBusy", std::string(crumb) + " after setBusy(ply " + std::to_string(p2) + "): score at p2 " + std::to_string(got2) + " want " + std::to_string(want) +
                     ", at ply " + std::to_string(p3) + " " + std::to_string(got3) + " want " + std::to_string(want3));
        }
    }
    stat["ply_setbusy_cases"] = nBusy;
    stat["ply_cases"] = n;
    finish();
    return 0;
}

static int runBounds(uint64_t seed, int shard, int nshards, int maxLog2) {
    Rng r{seed * 131 + 3};
    std::vector<uint64_t> sizes;
    for (int n = 9; n <= maxLog2; n++) {
        uint64_t p = 1ull << n;
        for (uint64_t s : { p, p + 4, p - 4, p + 1, p - 1, 3 * p / 2, 5 * p / 4, 3 * p / 4 + 2 }) if (s >= 512) sizes.push_back(s);
    }
    for (int mb = 1; mb <= 64; mb++) sizes.push_back((uint64_t)mb * 65536);                 // the Hash option: MB * 2^20 / 16 entries
    for (int mb : { 8, 16, 64 }) sizes.push_back((uint64_t)mb * 65536 - 5 * 1024 * 1024 / 16); // reduced size while a tablebase is resident
    sizes.push_back(1024);                                                                   // Hash 0 fallback in setupTT
    for (int i = 0; i < 100; i++) sizes.push_back(512 + r.next() % ((1ull << std::min(maxLog2, 21)) - 512));
    TranspositionTable tt(1 << 10);
    long long nSizes = 0, nOps = 0;
    for (size_t si = 0; si < sizes.size(); si++) {
        if ((int)(si % nshards) != shard) continue;
        uint64_t n = sizes[si];
        snprintf(crumb, sizeof(crumb), "bounds size %llu entries", (unsigned long long)n);
        tt.reSize(n);
        nSizes++;
        const uint64_t lows[] = { 0, ~0ull >> 16, 3, 4, 0xfffc, 0xffffc, 0xfffffffcull, r.next(), r.next() };
        for (uint64_t top = 0; top < 65536; top++) {
            for (uint64_t lo : lows) {
                uint64_t key = (top << 48) | (lo & 0x0000ffffffffffffull);
                Move m(Square(3), Square(4), 0); m.setScore(17);
                tt.insert(key, m, TType::T_GE, 1, 3, 5);
                TranspositionTable::TTEntry e; tt.probe(key, e);
                nOps += 2;
                if (e.getType() == TType::T_EMPTY || e.getKey() != key)
                    viol("entry-not-found-right-after-insert", std::string(crumb) + " key " + std::to_string(key));
            }
            if (n > (1u << 18)) top += 6;        // large tables: every 7th value of the top bits (still hits first/last buckets below)
        }
        for (uint64_t top : { 0ull, 65535ull, 65534ull, 32768ull }) for (uint64_t lo : { 0ull, ~0ull }) {
            uint64_t key = (top << 48) | (lo & 0x0000ffffffffffffull);
            Move m(Square(3), Square(4), 0);
            tt.insert(key, m, TType::T_EXACT, 0, 1, 0);
            TranspositionTable::TTEntry e; tt.probe(key, e); nOps += 2;
        }
    }
    stat["bounds_sizes"] = nSizes; stat["bounds_ops"] = nOps;
    printf("SAMPLE bounds shard %d: %lld table sizes, %lld insert/probe operations\n", shard, nSizes, nOps);
    finish();
    return 0;
}

static int runTbRegion(uint64_t seed, long long nops) {
    Rng r{seed * 977 + 11};
    TranspositionTable tt(16 * 65536);
    const uint64_t region = 5 * 1024 * 1024;
    for (int round = 0; round < 3; round++) {
        const char* fen = round == 1 ? "8/8/8/4k3/8/8/3R4/K7 w - - 0 1" : "8/8/8/4k3/8/8/3Q4/K7 w - - 0 1";
        Position root = TextIO::readFEN(fen);
        RelaxedShared<S64> nl(-1);
        snprintf(crumb, sizeof(crumb), "tbregion round %d", round);
        if (!tt.updateTB(root, nl)) { viol("updateTB-failed", crumb); break; }
        auto checksum = [&]() { uint64_t h = 1469598103934665603ull; uint64_t n = tt.byteSize(); for (uint64_t i = n - region; i < n; i++) { h ^= tt.getByte(i); h *= 1099511628211ull; } return h; };
        uint64_t c0 = checksum();
        std::vector<std::pair<Position, int>> probes;
        for (int i = 0; i < 2000; i++) {
            Position p; int wk = r.below(64), bk = r.below(64), q = r.below(64);
            if (wk == bk || wk == q || bk == q) continue;
            p.setPiece(Square(wk), Piece::WKING); p.setPiece(Square(bk), Piece::BKING); p.setPiece(Square(q), round == 1 ? Piece::WROOK : Piece::WQUEEN);
            p.setWhiteMove(r.below(2));
            int sc = 0; if (tt.probeDTM(p, 0, sc)) probes.push_back(std::make_pair(p, sc));
        }
        for (long long i = 0; i < nops; i++) {
            uint64_t key = r.next();
            int op = r.below(100);
            if (op < 60) { Move m(Square(r.below(64)), Square(r.below(64)), 0); m.setScore(r.below(2000) - 1000); tt.insert(key, m, 1 + r.below(3), r.below(30), r.below(60), r.below(500) - 250, r.below(20) == 0); }
            else if (op < 99) { TranspositionTable::TTEntry e; tt.probe(key, e); }
            else tt.nextGeneration();
            // boundary keys: highest top bits and all-ones low bits land in the last ordinary bucket
            if ((i & 1023) == 0) { Move m(Square(1), Square(2), 0); tt.insert(~0ull ^ (r.next() & 0xffff0000ull), m, TType::T_EXACT, 0, 5, 0); }
        }
        uint64_t c1 = checksum();
        if (c0 != c1) viol("tablebase-region-modified-by-hash-traffic", std::string(crumb) + " checksum changed");
        for (auto& pr : probes) { int sc = 0; if (!tt.probeDTM(pr.first, 0, sc) || sc != pr.second) { viol("tablebase-probe-changed", std::string(crumb) + " " + TextIO::toFEN(pr.first)); break; } }
        stat["tbregion_rounds"]++; stat["tbregion_ops"] += nops; stat["tbregion_dtm_reprobes"] += (long long)probes.size();
        // Searches from roots the table cannot serve (the search calls updateTB at every timed root): the table is kept for a few of
        // them and must stay protected meanwhile, then it is dropped. At every step it either answers exactly as before or not at all.
        if (round == 2) {
            Position other = TextIO::readFEN(TextIO::startPosFEN);
            for (int k = 0; k < 7; k++) {
                RelaxedShared<S64> nl2(-1);
                tt.updateTB(other, nl2);
                for (long long i = 0; i < nops / 8; i++) { Move m(Square(r.below(64)), Square(r.below(64)), 0); m.setScore(r.below(2000) - 1000); tt.insert(r.next(), m, 1 + r.below(3), r.below(30), r.below(60), r.below(500) - 250, false); }
                long long answered = 0;
                for (auto& pr : probes) { int sc = 0; if (tt.probeDTM(pr.first, 0, sc)) { answered++; if (sc != pr.second) { viol("tablebase-answers-wrong-after-unrelated-roots", std::string(crumb) + " after " + std::to_string(k + 1) + " unrelated updateTB calls: " + TextIO::toFEN(pr.first) + " was " + std::to_string(pr.second) + " now " + std::to_string(sc)); break; } } }
                stat[answered ? "tbregion_kept_through_unrelated_root" : "tbregion_dropped_after_unrelated_roots"]++;
            }
            // and back to the material of the table: whatever happened, the answers are exact again
            RelaxedShared<S64> nl3(-1);
            if (!tt.updateTB(root, nl3)) viol("updateTB-failed", std::string(crumb) + " (return to the table's material)");
            for (auto& pr : probes) { int sc = 0; if (!tt.probeDTM(pr.first, 0, sc) || sc != pr.second) { viol("tablebase-wrong-after-return-to-its-material", std::string(crumb) + " " + TextIO::toFEN(pr.first)); break; } }
            stat["tbregion_returns_to_material"]++;
        }
        if (round == 0) tt.clear(); else tt.reSize((round + 1) * 8 * 65536);
        // After clear / reSize the table is either gone (probeDTM: not found) or, if the table still answers, its bytes must still be
        // protected from ordinary stores: same answers before and after more hash traffic.
        for (int phase = 0; phase < 2; phase++) {
            long long answered = 0;
            for (auto& pr : probes) { int sc = 0; if (tt.probeDTM(pr.first, 0, sc)) { answered++; if (sc != pr.second) { viol("tablebase-answers-wrong-after-clear-or-resize", std::string(crumb) + (round == 0 ? " clear " : " reSize ") + TextIO::toFEN(pr.first) + " was " + std::to_string(pr.second) + " now " + std::to_string(sc)); break; } } }
            stat["tbregion_answers_after_clear_or_resize"] += answered;
            if (phase == 0) for (long long i = 0; i < nops / 4; i++) { Move m(Square(r.below(64)), Square(r.below(64)), 0); m.setScore(r.below(2000) - 1000); tt.insert(r.next(), m, 1 + r.below(3), r.below(30), r.below(60), r.below(500) - 250, false); }
        }
        stat["tbregion_clear_or_resize_checks"]++;
    }
    // Several generations in a row without a clear in between, in the smallest tables that can host one (the part left for hashing
    // must be recomputed from the table size each time, not shrunk again)
    for (int mb : {7, 8, 9, 12}) {
        TranspositionTable t8((U64)mb * 65536);
        for (int k = 0; k < 5; k++) {
            const char* fen = (k & 1) ? "8/8/8/4k3/8/8/3R4/K7 w - - 0 1" : "8/8/8/4k3/8/8/3Q4/K7 w - - 0 1";
            snprintf(crumb, sizeof(crumb), "tbregion %d MB table, generation %d", mb, k + 1);
            Position root = TextIO::readFEN(fen);
            RelaxedShared<S64> nl(-1);
            if (!t8.updateTB(root, nl)) { viol("updateTB-failed", crumb); break; }
            int sc0 = 0; bool f0 = t8.probeDTM(root, 0, sc0);
            uint64_t n = t8.byteSize(); uint64_t h0 = 1469598103934665603ull; for (uint64_t i = n - region; i < n; i++) { h0 ^= t8.getByte(i); h0 *= 1099511628211ull; }
            for (long long i = 0; i < 60000; i++) { uint64_t key = r.next(); if (i & 1) { TranspositionTable::TTEntry e; t8.probe(key, e); } else { Move m(Square(r.below(64)), Square(r.below(64)), 0); m.setScore(r.below(2000) - 1000); t8.insert(key, m, 1 + r.below(3), r.below(30), r.below(60), r.below(500) - 250, false); } }
            uint64_t h1 = 1469598103934665603ull; for (uint64_t i = n - region; i < n; i++) { h1 ^= t8.getByte(i); h1 *= 1099511628211ull; }
            int sc1 = 0; bool f1 = t8.probeDTM(root, 0, sc1);
            if (!f0 || !f1 || sc0 != sc1 || h0 != h1) viol("tablebase-region-modified-by-hash-traffic", std::string(crumb) + " (repeated generation)");
            stat["tbregion_repeated_generations"]++;
        }
    }
    finish();
    return 0;
}

int main(int argc, char** argv) {
    if (argc < 3) return 2;
    if (__sanitizer_set_death_callback) __sanitizer_set_death_callback(dumpCrumb);
    signal(SIGABRT, onSig);
    ComputerPlayer::initEngine();
    std::string mode = argv[1];
    uint64_t seed = strtoull(argv[2], 0, 10);
    if (mode == "hammer" && argc >= 7) return runHammer(seed, atoi(argv[3]), atoll(argv[4]), atoi(argv[5]), atoi(argv[6]));
    if (mode == "ply") return runPly(seed);
    if (mode == "bounds" && argc >= 6) return runBounds(seed, atoi(argv[3]), atoi(argv[4]), atoi(argv[5]));
    if (mode == "tbregion" && argc >= 4) return runTbRegion(seed, atoll(argv[3]));
    return 2;
}
