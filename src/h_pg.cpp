// h_pg: proof-game tool against reachable positions (C16).
//
//   h_pg bound   <seed> <ngames> [hashfile]   distLowerBound on every prefix of random legal games
//   h_pg filter  <seed> <npos>   [hashfile]   in-process first filter iteration (ProofGameFilter::filterFens)
//   h_pg genfens <seed> <n>                    the same positions as "filter <seed> <n>", printed for the real texelutil
//   h_pg replay                                stdin: "goalFEN | proof game in the tool's short notation" -> verdicts
//
// All positions come from legal games played by refchess from the initial position; every
// position of such a game keeps at least MINMEN (26) men. Goal FENs are normalised through the
// engine's own reader/writer (the tool insists on toFEN(readFEN(fen)) == fen, and readFEN drops
// e.p. squares without a legal capture).
#include "hcommon.hpp"
#include "vposgen.hpp"
#include "proofgame.hpp"
#include "proofgamefilter.hpp"
#include "proofkernel.hpp"
#include "chessError.hpp"
#include <climits>
#include <iostream>
#include <sstream>

using namespace hc;
using posgen::Rng;
static Report rep;

// The class name the repository declares as friend of ProofGame / ProofGameFilter (its unit test
// class, which is not linked here): gives access to the private heuristic.
class ProofGameTest {
public:
    static int dlb(ProofGame& pg, const Position& p) { return pg.distLowerBound(p); }
    static size_t nLastMoves(const ProofGame& pg) { return pg.lastMoves.size(); }
    static void cacheSize(ProofGame& pg, size_t n) { pg.pathDataCache.clear(); pg.pathDataCache.resize(n); }
};

static const int MINMEN = 26;

// Violations are counted per kind (STAT viol_<kind>); the first few of every kind are printed.
static std::map<std::string, int> violByKind;
static void viol(const std::string& kind, const std::string& wit) {
    rep.add("viol_" + kind);
    if (++violByKind[kind] <= 4) { rep.maxViolPrinted = rep.nViol + 1; rep.viol(kind, wit); }
    else rep.nViol++;
}

// ---------------------------------------------------------------------------------------------
// game generator

enum GStyle { G_QUIET = 0, G_TACT, G_PROMO, G_UNIFORM, G_NSTYLES };
static const char* const styleNames[G_NSTYLES] = { "quiet", "tactical", "promo", "uniform" };

struct GenGame {
    posgen::Game g;
    int style = 0;
    int captures = 0, promos = 0, castles = 0, epCaptures = 0;
    std::string finalKind = "plain";
};

static ref::Mv pickPromoStyle(Rng& r, const ref::Pos& p, const std::vector<ref::Mv>& l) {
    std::vector<int> w(l.size());
    long total = 0;
    for (size_t i = 0; i < l.size(); i++) {
        const ref::Mv& m = l[i];
        int k = ref::kindOf(p.b[m.from]);
        bool cap = ref::isCapture(p, m);
        int wt = 10;
        if (k == ref::K_P) {
            int adv = p.wtm ? ref::rankOf(m.to) : 7 - ref::rankOf(m.to);   // 2..7
            wt = 10 + adv * adv * 3;
            if (cap) wt *= 3;
            if (m.promo) wt *= (ref::kindOf(m.promo) == ref::K_Q ? 4 : 3);
        } else if (cap) {
            // clear the way: capturing pawns is useful, trading pieces is not
            wt = (p.b[m.to] != ref::EMPTY && ref::kindOf(p.b[m.to]) == ref::K_P) ? 20 : 2;
        }
        w[i] = wt; total += wt;
    }
    long x = (long)(r.next() % (uint64_t)total);
    for (size_t i = 0; i < l.size(); i++) { x -= w[i]; if (x < 0) return l[i]; }
    return l.back();
}

/** Random legal game from the initial position; no position of it has fewer than MINMEN men. */
enum { F_NONE = 0, F_CROSS32, F_EP_SHORT };
static GenGame genGameInner(Rng& r, int force, bool epPlainOk = true) {
    GenGame G;
    G.style = r.below(100) < 40 ? G_QUIET : r.below(100) < 40 ? G_TACT : r.below(100) < 60 ? G_PROMO : G_UNIFORM;
    int len = r.chance(8) ? r.range(1, 3) : r.range(1, 150);
    if (force == F_EP_SHORT) { len = r.range(6, 40); G.style = r.chance(50) ? G_UNIFORM : G_TACT; }
    if (force == F_CROSS32) len = r.range(20, 150);
    ref::Pos p; ref::parseFEN(ref::startFEN, p);
    G.g.pos.push_back(p);
    const bool wantCross = force == F_CROSS32 || (force == F_NONE && r.chance(30));
    // with all 32 men on the board no un-capture can explain the last move, so the quiet cross-check is the only candidate
    const bool noCaptures = force == F_CROSS32 || (wantCross && r.chance(20));
    ref::Mv crossReply;
    for (int ply = 0; ply < len; ply++) {
        std::vector<ref::Mv> l0, l; ref::genLegal(p, l0);
        bool budget = p.nMen() > MINMEN && !noCaptures;
        for (auto& m : l0) if (budget || !ref::isCapture(p, m)) l.push_back(m);
        if (l.empty()) break;
        ref::Mv m; bool chosen = false;
        if (crossReply.from != crossReply.to) {
            // second half of a cross-check chosen one ply earlier
            m = crossReply; chosen = true; G.finalKind = noCaptures ? "cross-check-32-men" : "cross-check"; crossReply = ref::Mv(); len = ply + 1;
        } else if (wantCross && ply >= 4 && ply + 2 <= len) {
            // cross-check: a check answered by a quiet, non-pawn move that itself gives check (the last-move analysis has a separate
            // branch for "quiet move made while in check")
            std::vector<std::pair<ref::Mv, ref::Mv>> pairs;
            for (auto& c : l) {
                ref::Pos q = ref::make(p, c);
                if (!ref::inCheck(q)) continue;
                std::vector<ref::Mv> rl; ref::genLegal(q, rl);
                for (auto& e : rl) if (!ref::isCapture(q, e) && ref::kindOf(q.b[e.from]) != ref::K_P && !ref::isCastle(q, e) && ref::inCheck(ref::make(q, e))) pairs.push_back({c, e});
            }
            if (!pairs.empty()) { auto pr = pairs[r.below((int)pairs.size())]; m = pr.first; crossReply = pr.second; chosen = true; }
        }
        if (!chosen && force == F_EP_SHORT && ply >= 4) {
            // a short game that ends with an en passant capture: the double step before it is a forced last-but-one move, so the
            // last-move analysis takes back two moves and the proof game search (iterated mode) finds a game quickly
            // preferably one that gives check: then no quiet move can have been the last move, the tool takes back the capture and finds
            // the double step before it forced - two reconstructed last moves in front of the proof game it prints
            std::vector<ref::Mv> sel, selCheck;
            for (auto& c : l) if (ref::isEnPassant(p, c)) { sel.push_back(c); if (ref::inCheck(ref::make(p, c))) selCheck.push_back(c); }
            if (!selCheck.empty()) { m = selCheck[r.below((int)selCheck.size())]; chosen = true; G.finalKind = "ep-capture-check-short-game"; len = ply + 1; }
            else if (!sel.empty() && epPlainOk) { m = sel[r.below((int)sel.size())]; chosen = true; G.finalKind = "ep-capture-short-game"; len = ply + 1; }
        }
        if (!chosen && ply == len - 1) {
            // shape the final position: e.p. right, check, capture, promotion as the last move
            int x = r.below(100);
            std::vector<ref::Mv> sel;
            const char* kind = "plain";
            if (x < 22) { kind = "ep-right"; for (auto& c : l) { ref::Pos q = ref::make(p, c); if (q.ep >= 0 && ref::epLegal(q)) sel.push_back(c); } }
            else if (x < 36) { kind = "check"; for (auto& c : l) if (ref::inCheck(ref::make(p, c))) sel.push_back(c); }
            else if (x < 46) { kind = "capture"; for (auto& c : l) if (ref::isCapture(p, c)) sel.push_back(c); }
            else if (x < 56) { kind = "promotion"; for (auto& c : l) if (c.promo) sel.push_back(c); }
            else if (x < 62) { kind = "castle"; for (auto& c : l) if (ref::isCastle(p, c)) sel.push_back(c); }
            else if (x < 68) { kind = "ep-capture"; for (auto& c : l) if (ref::isEnPassant(p, c)) sel.push_back(c); }
            if (!sel.empty()) { m = sel[r.below((int)sel.size())]; chosen = true; G.finalKind = kind; }
        }
        if (!chosen) {
            switch (G.style) {
            case G_QUIET: m = posgen::pickMove(r, p, l, posgen::QUIET); break;
            case G_TACT: m = posgen::pickMove(r, p, l, posgen::TACTICAL); break;
            case G_PROMO: m = pickPromoStyle(r, p, l); break;
            default: m = l[r.below((int)l.size())]; break;
            }
        }
        if (ref::isCapture(p, m)) G.captures++;
        if (ref::isEnPassant(p, m)) G.epCaptures++;
        if (ref::isCastle(p, m)) G.castles++;
        if (m.promo) G.promos++;
        p = ref::make(p, m);
        G.g.moves.push_back(m);
        G.g.pos.push_back(p);
    }
    return G;
}

/** 12% of the games are forced into one of the rare shapes (rejection sampling over whole games). */
static GenGame genGame(Rng& r) {
    int x = r.below(100);
    int force = x < 6 ? F_CROSS32 : x < 12 ? F_EP_SHORT : F_NONE;
    if (force != F_NONE)
        for (int attempt = 0; attempt < 1200; attempt++) {
            GenGame G = genGameInner(r, force, attempt >= 900);
            if (force == F_CROSS32 ? G.finalKind == "cross-check-32-men" : (G.finalKind == "ep-capture-check-short-game" || G.finalKind == "ep-capture-short-game")) return G;
        }
    return genGameInner(r, F_NONE);
}

static std::string uciMoves(const posgen::Game& g, size_t upto = (size_t)-1) {
    std::string s;
    for (size_t i = 0; i < g.moves.size() && i < upto; i++) { if (i) s += ' '; s += ref::mvStr(g.moves[i]); }
    return s;
}

/** FEN as the tool wants it: through the engine's reader and writer. Empty if the reader rejects it. */
static std::string normFen(const ref::Pos& p) {
    Position e;
    if (!readFEN(ref::toFEN(p), e)) return "";
    return TextIO::toFEN(e);
}

static std::string fenNoCounters(const std::string& fen) {
    size_t a = 0;
    for (int i = 0; i < 4 && a != std::string::npos; i++) a = fen.find(' ', a + 1);
    return a == std::string::npos ? fen : fen.substr(0, a);
}

static void genStats(const GenGame& G, const std::string& goal, bool rawEp = false) {
    const ref::Pos& f = G.g.pos.back();
    rep.add(std::string("gen_style_") + styleNames[G.style]);
    rep.add("gen_final_" + G.finalKind);
    rep.add("gen_men_" + std::to_string(f.nMen()));
    int n = (int)G.g.moves.size();
    rep.add(n <= 3 ? "gen_len_1_3" : n <= 20 ? "gen_len_4_20" : n <= 60 ? "gen_len_21_60" : n <= 110 ? "gen_len_61_110" : "gen_len_111_150");
    if (G.promos) rep.add("gen_games_with_promotion");
    if (G.castles) rep.add("gen_games_with_castling_move");
    if (G.epCaptures) rep.add("gen_games_with_ep_capture");
    if (f.castle == 15) rep.add("gen_final_castle_rights_all");
    else if (f.castle == 0) rep.add("gen_final_castle_rights_none");
    else rep.add("gen_final_castle_rights_partial");
    if (f.ep >= 0 && ref::epLegal(f)) rep.add("gen_final_ep_square_capturable");
    else if (f.ep >= 0) rep.add("gen_final_ep_square_dropped_by_reader");
    if (ref::inCheck(f)) rep.add("gen_final_in_check");
    std::vector<ref::Mv> l; ref::genLegal(f, l);
    if (l.empty()) rep.add(ref::inCheck(f) ? "gen_final_mate" : "gen_final_stalemate");
    // the reader must not have changed anything but an uncapturable e.p. square
    ref::Pos back;
    if (!ref::parseFEN(goal, back) || memcmp(back.b, f.b, 64) != 0 || back.wtm != f.wtm || back.castle != f.castle ||
        back.ep != ((f.ep >= 0 && (rawEp || ref::epLegal(f))) ? f.ep : -1)) {
        fprintf(stderr, "h_pg: FEN normalisation changed the position: %s -> %s\n", ref::toFEN(f).c_str(), goal.c_str());
        exit(2);
    }
}

// ---------------------------------------------------------------------------------------------
// log tallies: which stages of the tool really ran

static size_t countSub(const std::string& s, const char* sub) {
    size_t n = 0, pos = 0, l = strlen(sub);
    while ((pos = s.find(sub, pos)) != std::string::npos) { n++; pos += l; }
    return n;
}

static void tallyLog(const std::string& lg, const std::string& pfx) {
    rep.add(pfx + "lastmove_forced_moves", (long long)countSub(lg, "Forced last move:"));
    rep.add(pfx + "lastmove_assumed_irreversible", (long long)countSub(lg, "Only irreversible moves possible"));
    rep.add(pfx + "lastmove_candidates_checked", (long long)countSub(lg, "Checking move:"));
    rep.add(pfx + "lastmove_rejected_by_recursive_search", (long long)countSub(lg, "Move rejected by recursive proof game search"));
    // "found:<r> nodes:<n> csp:<c> cspNodes:<m>" one per proof kernel search (top level and inside last-move analysis)
    size_t pos = 0;
    while ((pos = lg.find("found:", pos)) != std::string::npos) {
        int res = -1; long long nodes = 0, csp = 0, cspNodes = 0;
        if (sscanf(lg.c_str() + pos, "found:%d nodes:%lld csp:%lld cspNodes:%lld", &res, &nodes, &csp, &cspNodes) == 4) {
            rep.add(pfx + "kernel_searches");
            rep.add(pfx + "kernel_search_result_" + std::string(res == 0 ? "none" : res == 1 ? "kernel_only" : "ext_kernel"));
            rep.add(pfx + "kernel_search_nodes", nodes);
            rep.add(pfx + "ext_kernel_csp_solved", csp);
            rep.add(pfx + "ext_kernel_csp_nodes", cspNodes);
            long long& mx = rep.stat["max_" + pfx + "kernel_search_nodes"]; if (nodes > mx) mx = nodes;
        }
        pos += 6;
    }
    rep.add(pfx + "astar_searches", (long long)countSub(lg, "\nnodes: "));
}

// ---------------------------------------------------------------------------------------------
// independent replay of a proof game written in the tool's short notation

static bool sanToMove(const ref::Pos& p, const std::string& tok, ref::Mv& out, std::string& why) {
    std::string s;
    for (char ch : tok) if (ch != '+' && ch != '#' && ch != '=') s += ch;
    std::vector<ref::Mv> l; ref::genLegal(p, l);
    std::vector<ref::Mv> cand;
    if (s == "O-O" || s == "O-O-O") {
        int toFile = s == "O-O" ? 6 : 2;
        for (auto& m : l) if (ref::isCastle(p, m) && ref::fileOf(m.to) == toFile) cand.push_back(m);
    } else {
        size_t i = 0;
        int kind = ref::K_P;
        static const char* pcs = "KQRBN";
        if (!s.empty() && strchr(pcs, s[0]) && s[0] != 0) { kind = (int)(strchr(pcs, s[0]) - pcs); i = 1; }
        int promoKind = -1;
        if (kind == ref::K_P && s.size() >= 3 && strchr("QRBN", s.back())) { promoKind = (int)(strchr(pcs, s.back()) - pcs); s.pop_back(); }
        if (s.size() < i + 2) { why = "unparsable move '" + tok + "'"; return false; }
        char fc = s[s.size() - 2], rc = s[s.size() - 1];
        if (fc < 'a' || fc > 'h' || rc < '1' || rc > '8') { why = "unparsable move '" + tok + "'"; return false; }
        int to = ref::sq(fc - 'a', rc - '1');
        int fromFile = -1, fromRank = -1; bool capFlag = false;
        for (size_t j = i; j + 2 < s.size(); j++) {
            char ch = s[j];
            if (ch >= 'a' && ch <= 'h' && fromFile < 0) fromFile = ch - 'a';
            else if (ch >= '1' && ch <= '8' && fromRank < 0) fromRank = ch - '1';
            else if (ch == 'x' && !capFlag) capFlag = true;
            else { why = "unparsable move '" + tok + "'"; return false; }
        }
        for (auto& m : l) {
            if (ref::kindOf(p.b[m.from]) != kind || m.to != to) continue;
            if (ref::isCastle(p, m)) continue;
            if ((m.promo ? ref::kindOf(m.promo) : -1) != promoKind) continue;
            if (fromFile >= 0 && ref::fileOf(m.from) != fromFile) continue;
            if (fromRank >= 0 && ref::rankOf(m.from) != fromRank) continue;
            if (ref::isCapture(p, m) != capFlag) continue;
            cand.push_back(m);
        }
    }
    if (cand.empty()) { why = "illegal move '" + tok + "' in " + ref::toFEN(p); return false; }
    if (cand.size() > 1) { why = "ambiguous move '" + tok + "' in " + ref::toFEN(p); return false; }
    out = cand[0];
    return true;
}

/** Replays from the initial position; true iff every move is legal and the end is exactly the goal
 *  (board, side to move, castling rights, e.p. square as a FEN states it: present iff a legal e.p. capture exists). */
static bool replayProof(const std::string& goalFen, const std::vector<std::string>& san, std::string& why) {
    ref::Pos g;
    if (!ref::parseFEN(goalFen, g)) { why = "goal FEN unparsable"; return false; }
    ref::Pos p; ref::parseFEN(ref::startFEN, p);
    for (size_t i = 0; i < san.size(); i++) {
        ref::Mv m;
        if (!sanToMove(p, san[i], m, why)) { why = "ply " + std::to_string(i + 1) + ": " + why; return false; }
        p = ref::make(p, m);
    }
    int ep = (p.ep >= 0 && ref::epLegal(p)) ? p.ep : -1;
    if (g.ep >= 0 && !ref::epLegal(g)) g.ep = -1;       // a goal FEN may name the square behind a double step although nothing can capture there
    if (memcmp(p.b, g.b, 64) != 0) { why = "final board differs: " + ref::toFEN(p); return false; }
    if (p.wtm != g.wtm) { why = "final side to move differs: " + ref::toFEN(p); return false; }
    if (p.castle != g.castle) { why = "final castling rights differ: " + ref::toFEN(p); return false; }
    if (ep != g.ep) { why = "final e.p. state differs: " + ref::toFEN(p); return false; }
    return true;
}

static std::vector<std::string> splitWs(const std::string& s) {
    std::vector<std::string> v; std::istringstream is(s); std::string t;
    while (is >> t) v.push_back(t);
    return v;
}

// ---------------------------------------------------------------------------------------------
// bound mode

static void boundGame(const GenGame& G, long long gi);

static GenGame gameFromMoves(const std::vector<std::string>& mv) {
    GenGame G;
    ref::Pos p; ref::parseFEN(ref::startFEN, p);
    G.g.pos.push_back(p);
    for (auto& t : mv) {
        ref::Mv m;
        if (!ref::parseMv(t, p.wtm, m) || !ref::isLegal(p, m)) { fprintf(stderr, "h_pg: illegal move %s\n", t.c_str()); exit(2); }
        if (ref::isCapture(p, m)) G.captures++;
        if (ref::isEnPassant(p, m)) G.epCaptures++;
        if (ref::isCastle(p, m)) G.castles++;
        p = ref::make(p, m);
        G.g.moves.push_back(m); G.g.pos.push_back(p);
    }
    G.finalKind = "directed";
    return G;
}

static void boundMode(uint64_t seed, long long ngames) {
    Rng r(seed);
    // directed short games first: castling (both wings, both colours) and en-passant captures (both colours)
    static const char* const directed[] = {
        "e2e4 e7e5 g1f3 b8c6 f1c4 f8c5 e1g1",
        "e2e4 e7e5 g1f3 g8f6 f1c4 f8c5 d2d3 e8g8",
        "d2d4 d7d5 b1c3 b8c6 c1f4 c8f5 d1d2 d8d7 e1c1 e8c8",
        "e2e4 a7a6 e4e5 d7d5 e5d6",
        "a2a3 e7e5 a3a4 e5e4 d2d4 e4d3",
    };
    for (const char* d : directed) { boundGame(gameFromMoves(splitWs(d)), 0); rep.add("games_directed"); }
    for (long long gi = 0; gi < ngames; gi++) {
        GenGame G = genGame(r);
        boundGame(G, gi);
        if (rep.nViol > 5000) break;
    }
}

/** h_pg boundgame <uci move>... : the bound checks on one given game (witness replay). */
static void boundGameMode(int argc, char** argv) {
    std::vector<std::string> mv;
    for (int i = 2; i < argc; i++) mv.push_back(argv[i]);
    boundGame(gameFromMoves(mv), 0);
}

static void boundGame(const GenGame& G, long long gi) {
    for (int once = 0; once < 1; once++) {     // "continue" = done with this game
        const posgen::Game& g = G.g;
        int n = (int)g.moves.size();
        std::string moves = uciMoves(g);
        std::string goal = normFen(g.pos[n]);
        if (goal.empty()) { viol("reachable-fen-rejected-by-reader", ref::toFEN(g.pos[n]) + " | moves " + moves); continue; }
        genStats(G, goal);
        rep.add("games");
        rep.distinct.insert(fnv(moves));
        std::vector<Position> prefix(n + 1);
        bool ok = true;
        for (int i = 0; i <= n && ok; i++) ok = readFEN(ref::toFEN(g.pos[i]), prefix[i]);
        if (!ok) { viol("reachable-fen-rejected-by-reader", "prefix of moves " + moves); continue; }

        // Labels for bound violations (the oracle is the same for all of them): the heuristic moves king and rook
        // separately and knows no en-passant capture, so violations where the next move of the game is an e.p.
        // capture, or where a castling move is still ahead, are reported under their own kinds.
        std::vector<int> castleAhead(n + 2, 0);
        for (int i = n - 1; i >= 0; i--) castleAhead[i] = castleAhead[i + 1] + (ref::isCastle(g.pos[i], g.moves[i]) ? 1 : 0);
        // excess = bound - remaining (or -1 for an infinite bound). A castling move costs one ply but the heuristic
        // charges king (2 moves) and rook (1 move) separately, i.e. at most 4 plies too many per castling still ahead;
        // anything beyond that, or an infinite bound without an e.p. capture next, is a different violation.
        auto label = [&](const char* base, int i, int excess = -1) {
            std::string k = base;
            if (i < n && ref::isEnPassant(g.pos[i], g.moves[i])) k += "-ep-capture-next";
            else if (castleAhead[i] && excess >= 0 && excess <= 4 * castleAhead[i]) {
                k += "-castling-ahead";
                long long& mx = rep.stat["max_excess_per_castling_x100"]; long long v = 100LL * excess / castleAhead[i]; if (v > mx) mx = v;
            }
            return k;
        };

        // A: plain heuristic towards the requested position
        setCrumb("bound/plain goal " + goal + " | moves " + moves);
        try {
            std::ostringstream lg;
            ProofGame pg(TextIO::startPosFEN, goal, false, {}, false, lg);
            if (gi & 1) ProofGameTest::cacheSize(pg, 1 << 14);
            for (int i = 0; i <= n; i++) {
                int b = ProofGameTest::dlb(pg, prefix[i]);
                rep.add("prefixes_plain");
                if (b == INT_MAX)
                    viol(label("bound-infinite", i), "goal " + goal + " | prefix " + std::to_string(i) + "/" + std::to_string(n) + " " + TextIO::toFEN(prefix[i]) + " | moves " + moves);
                else if (b > n - i)
                    viol(label("bound-exceeds-remaining", i, b - (n - i)), "goal " + goal + " | prefix " + std::to_string(i) + "/" + std::to_string(n) + " " + TextIO::toFEN(prefix[i]) +
                             " bound " + std::to_string(b) + " > " + std::to_string(n - i) + " | moves " + moves);
                else {
                    if (b == n - i) rep.add("bound_tight");
                    if (b > 0) rep.add("bound_positive");
                    rep.add("bound_sum", b); rep.add("remaining_sum", n - i);
                    long long& mx = rep.stat["max_bound"]; if (b > mx) mx = b;
                }
            }
        } catch (const ChessError& e) {
            viol("declared-illegal-static", "goal " + goal + " | reason " + e.what() + " | moves " + moves);
        }

        // B: with last-move analysis (forced last moves are taken back; the bound refers to the earlier goal)
        setCrumb("bound/lastmove goal " + goal + " | moves " + moves);
        try {
            std::ostringstream lg;
            ProofGame pg(TextIO::startPosFEN, goal, true, {}, false, lg);
            tallyLog(lg.str(), "b_");
            int k = (int)ProofGameTest::nLastMoves(pg);
            rep.add("lastmove_analyses");
            if (k > 0) { rep.add("lastmove_analyses_with_forced_moves"); rep.add("forced_moves_taken_back", k); }
            if (k > n) {
                viol("forced-last-moves-wrong", "goal " + goal + " | tool takes back " + std::to_string(k) + " forced moves, game has " + std::to_string(n) + " | moves " + moves);
                continue;
            }
            // the true predecessor is reachable: a "forced" take-back that differs from it means the tool
            // rejected a reachable position (e.p. field not compared: predecessors are generated without e.p. variants)
            ref::Pos tg = toRef(pg.getGoalPos());
            const ref::Pos& real = g.pos[n - k];
            if (memcmp(tg.b, real.b, 64) != 0 || tg.wtm != real.wtm || tg.castle != real.castle) {
                viol("forced-last-moves-wrong", "goal " + goal + " | tool's position after taking back " + std::to_string(k) + " forced moves: " +
                         TextIO::toFEN(pg.getGoalPos()) + " | real predecessor " + ref::toFEN(real) + " | moves " + moves);
                continue;
            }
            bool sameEp = fenNoCounters(TextIO::toFEN(pg.getGoalPos())) == fenNoCounters(TextIO::toFEN(prefix[n - k]));
            if (!sameEp) { rep.add("lastmove_bound_skipped_ep_differs"); continue; }
            if (gi & 2) ProofGameTest::cacheSize(pg, 1 << 14);
            for (int i = 0; i <= n - k; i++) {
                int b = ProofGameTest::dlb(pg, prefix[i]);
                rep.add("prefixes_lastmove");
                if (b == INT_MAX)
                    viol(label("bound-infinite", i), "goal " + goal + " (after taking back " + std::to_string(k) + " forced moves) | prefix " + std::to_string(i) + "/" + std::to_string(n) +
                             " " + TextIO::toFEN(prefix[i]) + " | moves " + moves);
                else if (b + k > n - i)
                    viol(label("bound-exceeds-remaining", i, b + k - (n - i)), "goal " + goal + " (after taking back " + std::to_string(k) + " forced moves) | prefix " + std::to_string(i) + "/" + std::to_string(n) +
                             " " + TextIO::toFEN(prefix[i]) + " bound " + std::to_string(b) + "+" + std::to_string(k) + " > " + std::to_string(n - i) + " | moves " + moves);
            }
        } catch (const ChessError& e) {
            viol("declared-illegal-lastmove", "goal " + goal + " | reason " + e.what() + " | moves " + moves);
        }
        if (gi % 41 == 7) rep.sample("bound: " + std::to_string(n) + " plies, goal " + goal);
    }
}

// ---------------------------------------------------------------------------------------------
// filter mode

static void classifyLine(const std::string& goal, const std::string& line, const std::string& moves, const std::string& pfx) {
    std::vector<std::string> t = splitWs(line);
    if (t.size() < 7) { viol("filter-no-verdict", "goal " + goal + " | output '" + line + "' | moves " + moves); return; }
    std::string fen = t[0]; for (int i = 1; i < 6; i++) fen += " " + t[i];
    if (fen != goal) { viol("filter-output-fen-differs", "goal " + goal + " | output '" + line + "'"); return; }
    std::string rest; for (size_t i = 6; i < t.size(); i++) rest += (i > 6 ? " " : "") + t[i];
    if (t[6] == "illegal:") {
        rep.add(pfx + "verdict_illegal");
        viol("declared-illegal", "goal " + goal + " | " + rest + " | moves " + moves);
    } else if (t[6] == "legal:") {
        rep.add(pfx + "verdict_legal_with_proof");
        std::vector<std::string> san;
        size_t i = 7;
        if (i < t.size() && t[i] == "proof:") i++;
        else { viol("legal-without-proof", "goal " + goal + " | " + rest); return; }
        for (; i < t.size(); i++) san.push_back(t[i]);
        std::string why;
        rep.add("proofs_replayed");
        rep.add("proof_plies", (long long)san.size());
        if (!replayProof(goal, san, why)) viol("invalid-proof-game", "goal " + goal + " | " + why + " | " + rest);
    } else if (t[6] == "unknown:") {
        bool kernel = false, ext = false, fail = false;
        int klen = 0; bool inK = false;
        for (size_t i = 7; i < t.size(); i++) {
            if (t[i].back() == ':') { inK = t[i] == "kernel:"; kernel |= inK; ext |= t[i] == "extKernel:"; fail |= t[i] == "fail:"; }
            else if (inK) klen++;
        }
        if (fail) {
            rep.add(pfx + "verdict_unknown_fail");
            size_t a = rest.find("info:");
            rep.add(pfx + "unknown_fail_info_" + (a == std::string::npos ? std::string("none") : rest.substr(a + 5, 40)));
        } else if (kernel && ext) {
            rep.add(pfx + "verdict_unknown_ext_kernel_found");
            rep.add(pfx + "kernel_len_" + std::to_string(klen));
        } else viol("filter-no-verdict", "goal " + goal + " | output '" + line + "'");
    } else viol("filter-no-verdict", "goal " + goal + " | output '" + line + "'");
}

static void filterMode(uint64_t seed, long long npos, bool onlyPrint) {
    Rng r(seed);
    for (long long pi = 0; pi < npos; pi++) {
        GenGame G = genGame(r);
        const posgen::Game& g = G.g;
        std::string moves = uciMoves(g);
        std::string goal = normFen(g.pos.back());
        if (goal.empty()) { viol("reachable-fen-rejected-by-reader", ref::toFEN(g.pos.back()) + " | moves " + moves); continue; }
        genStats(G, goal);
        rep.add("positions");
        rep.distinct.insert(fnv(fenNoCounters(goal)));
        if (onlyPrint) { printf("FEN %s | %s | %s\n", goal.c_str(), moves.c_str(), G.finalKind.c_str()); continue; }
        setCrumb("filter goal " + goal + " | moves " + moves);
        std::stringstream in, out, lg;
        in << goal << "\n";
        std::streambuf* old = std::clog.rdbuf(lg.rdbuf());
        std::string err;
        try {
            ProofGameFilter(1, 0, false).filterFens(in, out);
        } catch (const std::exception& e) { err = e.what(); }
        std::clog.rdbuf(old);
        if (!err.empty()) { viol("filter-exception", "goal " + goal + " | " + err + " | moves " + moves); continue; }
        std::string line = out.str();
        while (!line.empty() && (line.back() == '\n' || line.back() == '\r')) line.pop_back();
        printf("LINE %s\n", line.c_str());
        tallyLog(lg.str(), "f_");
        classifyLine(goal, line, moves, "f_");
        if (pi % 29 == 3) rep.sample("filter: " + line.substr(0, 300));
        if (rep.nViol > 5000) break;
    }
}

// ---------------------------------------------------------------------------------------------
// proof game stage of the filter on "path:" lines (the state the iterated mode writes after its path search): the final position of a
// game plus the first k moves of that game as the path. The stage runs up to three search passes with different heuristics and budgets.

static void pathStageMode(uint64_t seed, long long n) {
    Rng r(seed);
    for (long long pi = 0; pi < n; pi++) {
        GenGame G;
        for (;;) { G = genGame(r); if (G.g.moves.size() >= 10 && G.g.moves.size() <= 44) break; }
        const posgen::Game& g = G.g;
        std::string goal = normFen(g.pos.back());
        if (goal.empty()) continue;
        // the tool wants the counters reset
        { Position e; readFEN(goal, e); e.setFullMoveCounter(1); e.setHalfMoveClock(0); goal = TextIO::toFEN(e); }
        int k = r.chance(30) ? 0 : r.below((int)g.moves.size() - 3);
        std::string path, moves = uciMoves(g);
        { Position e = TextIO::readFEN(TextIO::startPosFEN); UndoInfo ui;
          for (int i = 0; i < k; i++) { Move m = toEng(g.moves[i]); path += " " + TextIO::moveToString(e, m, false); e.makeMove(m, ui); } }
        std::string line = goal + " unknown: kernel: dummy extKernel: dummy path:" + path;
        setCrumb("pathstage " + line + " | moves " + moves);
        std::stringstream in, out, lg; in << line << "\n";
        std::streambuf* old = std::clog.rdbuf(lg.rdbuf());
        std::string err;
        try { ProofGameFilter(1, 0, false).filterFens(in, out); } catch (const std::exception& e) { err = e.what(); }
        std::clog.rdbuf(old);
        rep.add("pathstage_lines");
        if (!err.empty()) { viol("filter-exception", "line " + line + " | " + err); continue; }
        std::string o = out.str(); while (!o.empty() && (o.back() == '\n' || o.back() == '\r')) o.pop_back();
        std::vector<std::string> t = splitWs(o);
        if (t.size() < 7) { viol("filter-no-verdict", "line " + line + " | output '" + o + "'"); continue; }
        if (t[6] == "illegal:") { viol("declared-illegal", "path-stage line " + line + " | " + o.substr(0, 300) + " | moves " + moves); continue; }
        if (t[6] == "legal:") {
            std::vector<std::string> san; size_t i = 7; if (i < t.size() && t[i] == "proof:") i++;
            for (; i < t.size(); i++) san.push_back(t[i]);
            std::string why; rep.add("pathstage_proofs"); rep.add("proofs_replayed");
            std::string l2 = lg.str();
            if (l2.find("Non-admissible search") != std::string::npos || l2.find("non-admissible") != std::string::npos) rep.add("pathstage_proofs_after_later_passes");
            if (!replayProof(goal, san, why)) viol("invalid-proof-game", "path-stage line " + line + " | " + why + " | proof has " + std::to_string(san.size()) + " moves: " + o.substr(0, 400));
        } else rep.add("pathstage_unresolved");
        rep.distinct.insert(fnv(line));
    }
}

// ---------------------------------------------------------------------------------------------
// replay mode

static void replayMode() {
    std::string line;
    while (std::getline(std::cin, line)) {
        size_t bar = line.find(" | ");
        if (bar == std::string::npos) continue;
        std::string goal = line.substr(0, bar);
        std::vector<std::string> san = splitWs(line.substr(bar + 3));
        setCrumb("replay " + line.substr(0, 2000));
        std::string why;
        rep.add("proofs_replayed");
        rep.add("proof_plies", (long long)san.size());
        long long& mx = rep.stat["max_proof_plies"]; if ((long long)san.size() > mx) mx = (long long)san.size();
        if (!replayProof(goal, san, why)) viol("invalid-proof-game", "goal " + goal + " | " + why + " | proof: " + line.substr(bar + 3));
        else rep.add("proofs_valid");
        rep.distinct.insert(fnv(line));
    }
}

static void replaySelfTest() {
    // the replayer must accept a known game and reject a wrong goal / an illegal move
    std::string why;
    std::vector<std::string> g = { "e4", "d5", "exd5", "Nf6", "Bb5+", "c6", "dxc6", "Qb6", "cxb7+", "Kd8", "bxa8Q", "Nbd7", "Nf3", "e5", "O-O" };
    const char* goal = "Q1bk1b1r/p2n1ppp/1q3n2/1B2p3/8/5N2/PPPP1PPP/RNBQ1RK1 b - - 0 8";
    if (!replayProof(goal, g, why)) { fprintf(stderr, "h_pg: replay self test failed: %s\n", why.c_str()); exit(2); }
    if (replayProof("Q1bk1b1r/p2n1ppp/1q3n2/1B2p3/8/5N2/PPPP1PPP/RNBQ1RK1 w - - 0 8", g, why)) { fprintf(stderr, "h_pg: replay accepts a wrong goal\n"); exit(2); }
    g[4] = "Bb6";
    if (replayProof(goal, g, why)) { fprintf(stderr, "h_pg: replay accepts an illegal move\n"); exit(2); }
    std::vector<std::string> e = { "e4", "a6", "e5", "d5" };
    if (!replayProof("rnbqkbnr/1pp1pppp/p7/3pP3/8/8/PPPP1PPP/RNBQKBNR w KQkq d6 0 3", e, why) ||
        replayProof("rnbqkbnr/1pp1pppp/p7/3pP3/8/8/PPPP1PPP/RNBQKBNR w KQkq - 0 3", e, why)) { fprintf(stderr, "h_pg: replay e.p. self test failed\n"); exit(2); }
}

int main(int argc, char** argv) {
    requireSelfTest();
    ComputerPlayer::initEngine();
    replaySelfTest();
    std::string mode = argc > 1 ? argv[1] : "";
    if (mode == "replay") { replayMode(); rep.finish(argc > 2 ? argv[2] : nullptr); return 0; }
    if (mode == "boundgame") { boundGameMode(argc, argv); rep.finish(nullptr); return 0; }
    uint64_t seed = (uint64_t)argLL(argc, argv, 2, 1);
    long long n = argLL(argc, argv, 3, 10);
    if (mode == "bound") boundMode(seed, n);
    else if (mode == "filter") filterMode(seed, n, false);
    else if (mode == "genfens") filterMode(seed, n, true);
    else if (mode == "pathstage") pathStageMode(seed, n);
    else { fprintf(stderr, "usage: h_pg bound|filter|genfens <seed> <n> [hashfile] | replay\n"); return 2; }
    rep.finish(argc > 4 ? argv[4] : nullptr);
    return 0;
}
