// h_bb: book-builder graph (BookBuild::Book / BookNode) against a from-scratch recomputation of the
// header's defining equations (C19).      h_bb <seed> <nhistories> [hashfile]
//
// A history is a random sequence of operations on one Book:
//   A  addPosToBook under an existing node (random node + move, or a move chosen so that the new
//      position has several parents / already has children in the book)
//   S  BookNode::setSearchResult: ordinary / zero / mate / threshold / INVALID / IGNORE score, best move in
//      {book child, non-book legal move, empty}
//   P+ / P-  Book::addPending / removePending
//   I  Book::addToBook of a random GameTree (several lines with common prefixes), random maxPly
//   W  writeToFile + readFromFile (into a second Book that is discarded, into a second Book that
//      replaces the first, or in place)
// The harness keeps its own model: the set of book positions (engine Position for the hash, refchess
// for the legal moves), the last search result stored per node, the pending set.  After an operation
// (every operation while the book is small, every ceil(nodes/300)-th otherwise and always after
// I / W and at the end) EVERYTHING is recomputed from the model alone: edges = legal moves between
// book positions, depth = BFS, negamax / expansion costs in reverse topological order, path errors in
// topological order, hashToParent = all (successor, book position) pairs.  Nothing of the book's
// incremental update code is called by the oracle.
//
// Replay of one history: H_BB_ONLY=<hist> H_BB_TRACE=1 h_bb <seed> <nhistories>
#include "hcommon.hpp"
#include "vposgen.hpp"
#include "bookbuild.hpp"
#include "gametree.hpp"
#include <sstream>
#include <iostream>
#include <algorithm>
#include <chrono>
#include <climits>
#include <deque>

using namespace hc;
using BookBuild::BookNode; using BookBuild::BookData; using BookBuild::IGNORE_SCORE; using BookBuild::INVALID_SCORE;
typedef BookBuild::Book BBook;
using posgen::Rng;
static Report rep;

// The declared test friend of BookBuild::Book: gives access to the private graph API.
class BookBuildTest {
public:
    static void addPos(BBook& b, Position& pos, const Move& m, std::vector<U64>& ts) { b.addPosToBook(pos, m, ts); }
    static BookNode* node(const BBook& b, U64 h) { return b.getBookNode(h); }
    static void addPending(BBook& b, U64 h) { b.addPending(h); }
    static void writeBackup(BBook& b, const BookNode& n) { b.writeBackup(n); }
    static void removePending(BBook& b, U64 h) { b.removePending(h); }
    static BookData& data(BBook& b) { return b.bookData; }
    static const std::unordered_map<U64, std::shared_ptr<BookNode>>& nodes(const BBook& b) { return b.bookNodes; }
    static bool h2pHas(const BBook& b, U64 c, U64 p) { return b.hashToParent.count(BBook::H2P(c, p)) != 0; }
    static size_t h2pSize(const BBook& b) { return b.hashToParent.size(); }
    static void h2pErase(BBook& b, U64 c, U64 p) { b.hashToParent.erase(BBook::H2P(c, p)); }
    static bool getPosition(const BBook& b, U64 h, Position& pos, std::vector<Move>& ml) { return b.getPosition(h, pos, ml); }
    static U64 startHash(const BBook& b) { return b.startPosHash; }
};
typedef BookBuildTest BT;

// ---------------------------------------------------------------------------------------------
// Oracle constants, written down from the header / constants.hpp and checked against them at start.
static const int O_MATE0 = 32000;
static const int O_IGN = -32767 + 1;       // IGNORE_SCORE  = UNKNOWN_SCORE + 1
static const int O_INV = -32767 + 2;       // INVALID_SCORE = UNKNOWN_SCORE + 2
static const int O_OBSOLETE = -10000;      // own-move choice when a child node exists for the best non-book move
static const int O_INV_MOVE_ERROR = 1000;  // move error used for a child choice when the node's own negamax score is invalid

/** "Negate a score for a child node to produce the corresponding score for the parent node" -
 *  mate scores step one ply, the two special scores are not negated. */
static int oNeg(int s) {
    if (s == O_IGN || s == O_INV) return s;
    if (s > O_MATE0 / 2) return -(s - 1);
    if (s < -(O_MATE0 / 2)) return -(s + 1);
    return -s;
}
static U16 oCmove(const ref::Mv& m) { return (U16)(m.from + (m.to << 6) + (m.promo << 12)); }

struct Succ { ref::Mv rm; Move m; U16 cm; U64 child; };
struct Stored { int ss = O_INV; Move best; U32 time = 0; };
struct MNode {
    U64 hash = 0; Position pos; ref::Pos rp; int firstParent = -1; ref::Mv via;
    std::vector<Succ> succ;   // all legal moves (refchess) with the book hash of the resulting position
    Stored st;
};

struct Model {
    std::vector<MNode> n;
    std::unordered_map<U64, int> idx;
    std::set<int> pending;
    std::unordered_map<U64, std::vector<int>> pot;   // position hash -> model nodes with a legal move into it
    std::vector<U64> multi;                          // hashes that acquired a second potential parent

    void fill(MNode& nd) {
        std::vector<ref::Mv> l; ref::genLegal(nd.rp, l);
        for (auto& rm : l) {
            Succ s; s.rm = rm; s.m = toEng(rm); s.cm = oCmove(rm);
            if (s.cm != s.m.getCompressedMove()) { fprintf(stderr, "h_bb: compressed move mismatch\n"); exit(2); }
            Position p(nd.pos); UndoInfo ui; p.makeMove(s.m, ui);
            s.child = p.bookHash();
            nd.succ.push_back(s);
        }
    }
    void index(int i) {
        idx[n[i].hash] = i;
        for (auto& s : n[i].succ) {
            auto& v = pot[s.child];
            v.push_back(i);
            if (v.size() == 2) multi.push_back(s.child);
        }
    }
    void init() {
        n.clear(); idx.clear(); pending.clear(); pot.clear(); multi.clear();
        MNode r; r.pos = TextIO::readFEN(TextIO::startPosFEN); ref::parseFEN(ref::startFEN, r.rp);
        r.hash = r.pos.bookHash(); fill(r); n.push_back(r); index(0);
    }
    int has(U64 h) const { auto it = idx.find(h); return it == idx.end() ? -1 : it->second; }
    int add(int parent, int si) {
        MNode c; const Succ& s = n[parent].succ[si];
        c.pos = n[parent].pos; UndoInfo ui; c.pos.makeMove(s.m, ui);
        c.rp = ref::make(n[parent].rp, s.rm); c.hash = c.pos.bookHash();
        c.firstParent = parent; c.via = s.rm; fill(c);
        n.push_back(c); index((int)n.size() - 1);
        return (int)n.size() - 1;
    }
    int ply(int i) const { int k = 0; while (n[i].firstParent >= 0) { i = n[i].firstParent; k++; } return k; }
    std::string path(int i) const {
        std::vector<std::string> v;
        while (n[i].firstParent >= 0) { v.push_back(ref::mvStr(n[i].via)); i = n[i].firstParent; }
        std::string s = "[";
        for (size_t k = v.size(); k-- > 0;) { s += v[k]; if (k) s += " "; }
        return s + "]";
    }
};

struct Costs { int depthCost = 100, own = 200, other = 50; };

struct Expect {
    std::vector<std::vector<std::pair<U16, int>>> kids, pars;
    std::vector<int> depth, nm, ecW, ecB, peW, peB, order;
    long long edges = 0, h2p = 0;
};

static std::string scoreStr(int s) {
    if (s == O_INV) return "INVALID"; if (s == O_IGN) return "IGNORE"; if (s == INT_MAX) return "INT_MAX";
    return std::to_string(s);
}

/** From-scratch evaluation of the defining equations on the model. Returns "" or a harness error text. */
static std::string computeExpect(const Model& M, const Costs& K, Expect& E) {
    const int N = (int)M.n.size();
    E.kids.assign(N, {}); E.pars.assign(N, {});
    E.edges = 0; E.h2p = 0;
    for (int i = 0; i < N; i++) for (auto& s : M.n[i].succ) {
        E.h2p++;
        int j = M.has(s.child);
        if (j >= 0) { E.kids[i].push_back({s.cm, j}); E.pars[j].push_back({s.cm, i}); E.edges++; }
    }
    // depth: breadth first distance from the root
    E.depth.assign(N, INT_MAX);
    { std::deque<int> q; E.depth[0] = 0; q.push_back(0);
      while (!q.empty()) { int i = q.front(); q.pop_front();
          for (auto& e : E.kids[i]) if (E.depth[e.second] == INT_MAX) { E.depth[e.second] = E.depth[i] + 1; q.push_back(e.second); } } }
    // topological order (parents first)
    E.order.clear();
    { std::vector<int> indeg(N); std::vector<int> st;
      for (int i = 0; i < N; i++) { indeg[i] = (int)E.pars[i].size(); if (!indeg[i]) st.push_back(i); }
      while (!st.empty()) { int i = st.back(); st.pop_back(); E.order.push_back(i);
          for (auto& e : E.kids[i]) if (--indeg[e.second] == 0) st.push_back(e.second); }
      if ((int)E.order.size() != N) return "model graph has a cycle (half-move clock >= 100?)"; }
    E.nm.assign(N, O_INV); E.ecW.assign(N, O_INV); E.ecB.assign(N, O_INV);
    for (int oi = N - 1; oi >= 0; oi--) {
        const int i = E.order[oi];
        const MNode& nd = M.n[i];
        const int ss = nd.st.ss;
        const bool haveBest = !nd.st.best.isEmpty();
        const U16 bcm = nd.st.best.getCompressedMove();
        int coverKid = -1;
        if (haveBest) for (auto& e : E.kids[i]) if (e.first == bcm) coverKid = e.second;
        // negamax: searchScore INVALID => INVALID; otherwise max of searchScore (dropped when a child with a
        // valid score covers the best non-book move) and negateScore(child) over all children
        int base = ss;
        if (coverKid >= 0 && E.nm[coverKid] != O_INV) base = O_IGN;
        int nm = base;
        if (nm != O_INV) for (auto& e : E.kids[i]) nm = std::max(nm, oNeg(E.nm[e.second]));
        E.nm[i] = nm;
        const bool pend = M.pending.count(i) != 0;
        for (int w = 0; w < 2; w++) {
            const bool white = w == 0;
            std::vector<int>& ec = white ? E.ecW : E.ecB;
            const int k = (nd.rp.wtm == white) ? K.own : K.other;
            bool childInvalid = false;
            for (auto& e : E.kids[i]) if (ec[e.second] == O_INV) childInvalid = true;
            int res;
            if (childInvalid) res = O_INV;
            else if (!pend && ss == O_INV) res = O_INV;
            else {
                bool any = false; long long best = 0;
                if (!pend && ss != O_IGN) {   // own (dropout) move is a choice unless this node is being searched / has no non-book move
                    long long c = coverKid >= 0 ? O_OBSOLETE : (long long)k * (nm - ss);
                    if (coverKid < 0 && nm - ss < 0) return "oracle: negative own move error";
                    best = c; any = true;
                }
                for (auto& e : E.kids[i]) {
                    int ce = ec[e.second];
                    if (ce == O_IGN) continue;           // choices that are being searched are ignored
                    long long me = nm == O_INV ? O_INV_MOVE_ERROR : (long long)nm - oNeg(E.nm[e.second]);
                    if (me < 0) return "oracle: negative child move error";
                    long long c = (long long)K.depthCost + ce + k * me;
                    if (!any || c < best) { best = c; any = true; }
                }
                if (any && (best > INT_MAX / 2 || best < INT_MIN / 2)) return "oracle: expansion cost outside int range";
                res = any ? (int)best : O_IGN;
            }
            ec[i] = res;
        }
    }
    // path errors: smallest accumulated error per side over the parents, root = 0
    E.peW.assign(N, O_INV); E.peB.assign(N, O_INV);
    for (int oi = 0; oi < N; oi++) {
        const int i = E.order[oi];
        if (i == 0) { E.peW[i] = 0; E.peB[i] = 0; continue; }
        long long bw = LLONG_MAX, bb = LLONG_MAX;
        for (auto& e : E.pars[i]) {
            int p = e.second;
            if (E.peW[p] == O_INV || E.peB[p] == O_INV) continue;
            if (E.nm[i] == O_INV || E.nm[p] == O_INV) continue;
            long long delta = (long long)E.nm[p] - oNeg(E.nm[i]);
            if (delta < 0) return "oracle: negative path delta";
            long long ew = E.peW[p] + (M.n[p].rp.wtm ? delta : 0);
            long long eb = E.peB[p] + (M.n[p].rp.wtm ? 0 : delta);
            bw = std::min(bw, ew); bb = std::min(bb, eb);
        }
        if (bw == LLONG_MAX) { E.peW[i] = O_INV; E.peB[i] = O_INV; }
        else { if (bw > INT_MAX / 2 || bb > INT_MAX / 2) return "oracle: path error outside int range"; E.peW[i] = (int)bw; E.peB[i] = (int)bb; }
    }
    return "";
}

// What the book really contains -----------------------------------------------------------------
struct Obs {
    int depth = 0, nm = 0, ecW = 0, ecB = 0, peW = 0, peB = 0, ss = 0, state = 0; U16 best = 0; U32 time = 0;
    std::vector<std::pair<U16, U64>> kids, pars;
};
typedef std::map<U64, Obs> Snap;

static bool snapshot(const BBook& b, Snap& out, std::string& err) {
    out.clear();
    for (auto& e : BT::nodes(b)) {
        const BookNode* bn = e.second.get();
        if (!bn) { err = "null node pointer in bookNodes"; return false; }
        if (bn->getHashKey() != e.first) { err = "bookNodes key differs from node hash key"; return false; }
        Obs o;
        o.depth = bn->getDepth(); o.nm = bn->getNegaMaxScore(); o.ecW = bn->getExpansionCostWhite(); o.ecB = bn->getExpansionCostBlack();
        o.peW = bn->getPathErrorWhite(); o.peB = bn->getPathErrorBlack(); o.ss = bn->getSearchScore(); o.state = (int)bn->getState();
        o.best = bn->getBestNonBookMove().getCompressedMove(); o.time = bn->getSearchTime();
        for (auto& c : bn->getChildren()) {
            if (!c.second) { err = "null child pointer"; return false; }
            if (BT::node(b, c.second->getHashKey()) != c.second) { err = "child pointer is not a node of this book"; return false; }
            o.kids.push_back({c.first, c.second->getHashKey()});
        }
        for (auto& p : bn->getParents()) {
            if (!p.parent) { err = "null parent pointer"; return false; }
            if (BT::node(b, p.parent->getHashKey()) != p.parent) { err = "parent pointer is not a node of this book"; return false; }
            o.pars.push_back({p.compressedMove, p.parent->getHashKey()});
        }
        std::sort(o.kids.begin(), o.kids.end()); std::sort(o.pars.begin(), o.pars.end());
        out[e.first] = o;
    }
    return true;
}

struct Mismatch { std::string kind, text; };

static std::string cmStr(U16 cm) { ref::Mv m; m.from = cm & 63; m.to = (cm >> 6) & 63; m.promo = (cm >> 12) & 15; return cm ? ref::mvStr(m) : "-"; }

/** Compare a snapshot of the book with the expectation computed from the model. */
static bool compareExpect(const BBook& b, const Snap& S, const Model& M, const Expect& E, Mismatch& mm, bool checkPe = true) {
    const int N = (int)M.n.size();
    if ((int)S.size() != N) { mm = {"node-set", "book has " + std::to_string(S.size()) + " nodes, model " + std::to_string(N)}; return false; }
    for (int i = 0; i < N; i++) {
        auto it = S.find(M.n[i].hash);
        if (it == S.end()) { mm = {"node-set", "node " + M.path(i) + " missing in book"}; return false; }
        const Obs& o = it->second;
        const MNode& nd = M.n[i];
        auto at = [&](const std::string& what, const std::string& exp, const std::string& got) {
            return what + " of node n" + std::to_string(i) + " " + M.path(i) + " (searchScore=" + scoreStr(nd.st.ss) + " best=" + cmStr(nd.st.best.getCompressedMove()) +
                   " children=" + std::to_string(E.kids[i].size()) + " parents=" + std::to_string(E.pars[i].size()) + (M.pending.count(i) ? " pending" : "") +
                   "): expected " + exp + " got " + got;
        };
        if (o.state != (int)BookNode::INITIALIZED) { mm = {"stored-data", at("state", "INITIALIZED", std::to_string(o.state))}; return false; }
        if (o.ss != nd.st.ss || o.best != nd.st.best.getCompressedMove() || o.time != nd.st.time) {
            mm = {"stored-data", at("searchScore/bestMove/time", scoreStr(nd.st.ss) + "/" + cmStr(nd.st.best.getCompressedMove()) + "/" + std::to_string(nd.st.time),
                                    scoreStr(o.ss) + "/" + cmStr(o.best) + "/" + std::to_string(o.time))}; return false; }
        // links
        std::vector<std::pair<U16, U64>> ek, ep;
        for (auto& e : E.kids[i]) ek.push_back({e.first, M.n[e.second].hash});
        for (auto& e : E.pars[i]) ep.push_back({e.first, M.n[e.second].hash});
        std::sort(ek.begin(), ek.end()); std::sort(ep.begin(), ep.end());
        auto ls = [&](const std::vector<std::pair<U16, U64>>& v) { std::string s; for (auto& x : v) { s += cmStr(x.first); int j = M.has(x.second); s += j >= 0 ? "->n" + std::to_string(j) : "->?"; s += " "; } return "{" + s + "}"; };
        if (ek != o.kids) { mm = {"link", at("children", ls(ek), ls(o.kids))}; return false; }
        if (ep != o.pars) { mm = {"link", at("parents", ls(ep), ls(o.pars))}; return false; }
        for (auto& s : nd.succ) if (!BT::h2pHas(b, s.child, nd.hash)) { mm = {"hashToParent", at("hashToParent entry for move " + ref::mvStr(s.rm), "present", "absent")}; return false; }
        if (o.depth != E.depth[i]) { mm = {"depth", at("depth", std::to_string(E.depth[i]), scoreStr(o.depth))}; return false; }
        if (o.nm != E.nm[i]) { mm = {"negamax", at("negaMaxScore", scoreStr(E.nm[i]), scoreStr(o.nm))}; return false; }
        if (o.ecW != E.ecW[i]) { mm = {"expansion-cost", at("expansionCostWhite", scoreStr(E.ecW[i]), scoreStr(o.ecW))}; return false; }
        if (o.ecB != E.ecB[i]) { mm = {"expansion-cost", at("expansionCostBlack", scoreStr(E.ecB[i]), scoreStr(o.ecB))}; return false; }
        if (checkPe && (o.peW != E.peW[i] || o.peB != E.peB[i])) { mm = {"path-error", at("pathErrorWhite/Black", scoreStr(E.peW[i]) + "/" + scoreStr(E.peB[i]), scoreStr(o.peW) + "/" + scoreStr(o.peB))}; return false; }
    }
    if ((long long)BT::h2pSize(b) != E.h2p) { mm = {"hashToParent", "hashToParent has " + std::to_string(BT::h2pSize(b)) + " entries, expected " + std::to_string(E.h2p)}; return false; }
    return true;
}

/** Node-by-node comparison of two snapshots (save / load). */
static bool compareSnaps(const Snap& a, const Snap& b, bool withCosts, const Model& M, Mismatch& mm, bool withPe = true) {
    if (a.size() != b.size()) { mm = {"saveload", "node count " + std::to_string(a.size()) + " -> " + std::to_string(b.size())}; return false; }
    for (auto& e : a) {
        auto it = b.find(e.first);
        int i = M.has(e.first);
        std::string nm = i >= 0 ? "n" + std::to_string(i) + " " + M.path(i) : "?";
        if (it == b.end()) { mm = {"saveload", "node " + nm + " lost"}; return false; }
        const Obs& x = e.second; const Obs& y = it->second;
        auto d = [&](const char* f, long long u, long long v) { mm = {"saveload", std::string(f) + " of node " + nm + ": " + std::to_string(u) + " before, " + std::to_string(v) + " after reload"}; return false; };
        if (x.ss != y.ss) return d("searchScore", x.ss, y.ss);
        if (x.best != y.best) return d("bestNonBookMove", x.best, y.best);
        if (x.time != y.time) return d("searchTime", x.time, y.time);
        if (x.depth != y.depth) return d("depth", x.depth, y.depth);
        if (x.nm != y.nm) return d("negaMaxScore", x.nm, y.nm);
        if (withPe && x.peW != y.peW) return d("pathErrorWhite", x.peW, y.peW);
        if (withPe && x.peB != y.peB) return d("pathErrorBlack", x.peB, y.peB);
        if (withCosts && x.ecW != y.ecW) return d("expansionCostWhite", x.ecW, y.ecW);
        if (withCosts && x.ecB != y.ecB) return d("expansionCostBlack", x.ecB, y.ecB);
        if (x.state != y.state) return d("state", x.state, y.state);
        if (x.kids != y.kids) return d("children count/links", (long long)x.kids.size(), (long long)y.kids.size());
        if (x.pars != y.pars) return d("parents count/links", (long long)x.pars.size(), (long long)y.pars.size());
    }
    return true;
}

static long long gEvalNodes = 0;

/** Full oracle pass. */
static bool oracle(const BBook& b, const Model& M, const Costs& K, Mismatch& mm, bool checkPe = true) {
    Expect E;
    std::string herr = computeExpect(M, K, E);
    if (!herr.empty()) { fprintf(stderr, "h_bb: %s\n", herr.c_str()); dumpCrumb(); exit(2); }
    Snap S; std::string err;
    if (!snapshot(b, S, err)) { mm = {"link", err}; return false; }
    rep.add("oracle_passes"); gEvalNodes += (long long)M.n.size();
    long long multi = 0; for (auto& p : E.pars) if (p.size() > 1) multi++;
    rep.stat["max_multi_parent_nodes_in_a_book"] = std::max(rep.stat["max_multi_parent_nodes_in_a_book"], multi);
    return compareExpect(b, S, M, E, mm, checkPe);
}

// Work estimate for the recursive descent through nodes without a valid score (BookNode::updateScores
// revisits such nodes once per path): number of downward paths through invalid nodes.
static double invalidPaths(const Model& M, const Expect& E, int start, bool all) {
    const int N = (int)M.n.size();
    std::vector<double> w(N, 0);
    double tot = 0;
    for (int oi = N - 1; oi >= 0; oi--) {
        int i = E.order[oi]; double s = 1;
        for (auto& e : E.kids[i]) if (E.nm[e.second] == O_INV) s += w[e.second];
        w[i] = std::min(s, 1e18); tot += w[i];
    }
    return all ? tot : w[start];
}

// ---------------------------------------------------------------------------------------------
struct Hist {
    uint64_t seed; long long hi; bool trace;
    Rng r;
    Model M; Costs K;
    std::unique_ptr<BBook> book;
    std::string backupFile, tmpFile;
    std::unordered_map<U64, Stored> backupExp;   // what the backup file must contain (last record per node)
    std::vector<std::string> ops;
    int narrowK = 4; int cls = 0;
    bool failed = false;
    Hist(uint64_t s, long long h, bool t) : seed(s), hi(h), trace(t), r(s * 1000003ull + (uint64_t)h * 7919ull + 17) {}

    std::string tail(size_t k = 14) const {
        std::string s; size_t a = ops.size() > k ? ops.size() - k : 0;
        for (size_t i = a; i < ops.size(); i++) { s += "#" + std::to_string(i) + " " + ops[i]; if (i + 1 < ops.size()) s += " ; "; }
        return s;
    }
    std::string where() const {
        return (hi < 0 ? std::string("directed-chain") : "seed=" + std::to_string(seed) + " hist=" + std::to_string(hi)) + " op=" + std::to_string(ops.size() - 1) + " costs=" +
               std::to_string(K.depthCost) + "/" + std::to_string(K.own) + "/" + std::to_string(K.other) + " nodes=" + std::to_string(M.n.size());
    }
    void log(const std::string& s) {
        ops.push_back(s);
        if (trace) fprintf(stderr, "op %zu: %s\n", ops.size() - 1, s.c_str());
        setCrumb(where() + " | ops: " + tail());
    }
    void viol(const Mismatch& mm, bool fatal = true) {
        rep.viol(mm.kind + "-mismatch", where() + " " + mm.text + " | ops: " + tail() + " | replay: H_BB_ONLY=" + std::to_string(hi) + " H_BB_TRACE=1 h_bb " + (hi < 0 ? std::string("<any seed>") : std::to_string(seed)) + " <n>");
        if (fatal) failed = true;
    }
    // Path errors feed nothing else (negamax, expansion costs, depth and links do not read them), so after a path
    // error mismatch the history goes on with the path error comparison switched off until the book is reloaded
    // from a file (which recomputes every path error); all other equations stay checked.
    bool peBroken = false;
    bool check() {
        Mismatch mm;
        if (oracle(*book, M, K, mm, !peBroken)) return true;
        if (mm.kind == "path-error" && !peBroken) {
            // keep room in the per-process report budget for other kinds of violations
            static int pePrinted = 0;
            if (hi < 0 || pePrinted < 4) { if (hi >= 0) pePrinted++; viol(mm, false); } else rep.add("path_error_mismatches_counted_not_printed");
            peBroken = true; rep.add("path_error_went_stale_events");
            if (oracle(*book, M, K, mm, false)) return true;
        }
        viol(mm); return false;
    }

    int pickSucc(int node, bool wantNew) {   // index into succ, or -1
        const auto& sc = M.n[node].succ;
        if (sc.empty()) return -1;
        for (int t = 0; t < 12; t++) {
            int si = (r.chance(70) ? r.below(std::min<int>(narrowK, (int)sc.size())) : r.below((int)sc.size()));
            if (!wantNew || M.has(sc[si].child) < 0) return si;
        }
        return -1;
    }
    int pickNode() {
        int N = (int)M.n.size();
        if (r.chance(40)) return N - 1 - r.below(std::min(N, 12));   // recent nodes: deepens lines
        return r.below(N);
    }

    // -- operations -------------------------------------------------------------------------------
    bool opAdd() {
        int parent = -1, si = -1; bool viaMulti = false;
        if (!M.multi.empty() && r.chance(45)) {
            for (int t = 0; t < 10 && parent < 0; t++) {
                U64 h = M.multi[r.below((int)M.multi.size())];
                if (M.has(h) >= 0) continue;
                auto& v = M.pot[h]; int p = v[r.below((int)v.size())];
                for (size_t k = 0; k < M.n[p].succ.size(); k++) if (M.n[p].succ[k].child == h) { parent = p; si = (int)k; viaMulti = true; break; }
            }
        }
        for (int t = 0; t < 10 && parent < 0; t++) { int p = pickNode(); int s = pickSucc(p, true); if (s >= 0) { parent = p; si = s; } }
        if (parent < 0) return false;
        if (M.ply(parent) >= 78) return false;   // keeps accumulated costs inside int and the half-move clock below 100
        return doAdd(parent, si, viaMulti);
    }
    bool doAdd(int parent, int si, bool viaMulti = false) {
        const Succ s = M.n[parent].succ[si];
        int c = M.add(parent, si);
        // expected new links
        std::set<U64> expPar; for (int p : M.pot[s.child]) expPar.insert(M.n[p].hash);
        int nKids = 0; for (auto& cs : M.n[c].succ) if (M.has(cs.child) >= 0) nKids++;
        log("A n" + std::to_string(parent) + " " + ref::mvStr(s.rm) + " -> n" + std::to_string(c) + " " + M.path(c) + (viaMulti ? " (multi-parent pick)" : "") +
            " parents=" + std::to_string(expPar.size()) + " existing-children=" + std::to_string(nKids));
        Position pos(M.n[parent].pos); std::vector<U64> ts;
        BT::addPos(*book, pos, s.m, ts);
        backupExp[s.child] = Stored();
        rep.add("op_add"); if (expPar.size() > 1) rep.add("add_new_node_with_several_parents"); if (nKids > 0) rep.add("add_new_node_with_existing_children");
        if (pos.bookHash() != M.n[parent].hash) { viol({"api", "addPosToBook did not restore pos"}); return true; }
        std::set<U64> got(ts.begin(), ts.end()); std::set<U64> want(expPar); want.insert(s.child);
        if (got != want || ts.size() != want.size() || ts.empty() || ts[0] != s.child) {
            viol({"toSearch", "addPosToBook toSearch has " + std::to_string(ts.size()) + " entries (" + std::to_string(got.size()) + " distinct), expected new node first + " + std::to_string(expPar.size()) + " parents"}); return true; }
        // the stored path to the new node must lead to it
        Position p2; std::vector<Move> ml;
        if (!BT::getPosition(*book, s.child, p2, ml) || p2.bookHash() != s.child) { viol({"getPosition", "getPosition of the new node returns another position"}); return true; }
        { Position q = TextIO::readFEN(TextIO::startPosFEN); UndoInfo ui; for (auto& m : ml) q.makeMove(m, ui);
          if (q.bookHash() != s.child) { viol({"getPosition", "move list of getPosition does not lead to the node"}); return true; } }
        return true;
    }

    int randomScore(std::string& kind) {
        int a = r.below(100);
        if (a < 50) { kind = "ord"; return r.range(-150, 150); }
        if (a < 58) { kind = "ord"; return r.range(-3000, 3000); }
        if (a < 63) { kind = "zero"; return 0; }
        if (a < 75) { kind = "mate"; int k = r.chance(30) ? r.below(3) : r.below(60); return (r.chance(50) ? 1 : -1) * (O_MATE0 - k); }
        if (a < 80) { kind = "threshold"; int base = O_MATE0 / 2 + r.range(-2, 2); return r.chance(50) ? base : -base; }
        if (a < 89) { kind = "invalid"; return O_INV; }
        kind = "ignore"; return O_IGN;
    }

    bool opSet(int node = -1) {
        int N = (int)M.n.size();
        if (node < 0) {
            node = r.below(N);
            if (r.chance(40)) for (int t = 0; t < 40; t++) { int c = r.below(N); if (M.n[c].st.ss == O_INV) { node = c; break; } }
        }
        std::string kind; int score = randomScore(kind);
        const MNode& nd = M.n[node];
        std::vector<int> inBook, notInBook;
        for (size_t k = 0; k < nd.succ.size(); k++) (M.has(nd.succ[k].child) >= 0 ? inBook : notInBook).push_back((int)k);
        if (kind == "ignore" && inBook.empty() && r.chance(80)) { kind = "ord"; score = r.range(-200, 200); }   // IGNORE on a leaf is outside the documented domain: rare
        Move best; std::string bk = "empty";
        int a = r.below(100);
        // INVALID ("no search has been performed") never comes with a best move that is a book child
        if (a < 32 && !inBook.empty() && score != O_INV) { best = nd.succ[inBook[r.below((int)inBook.size())]].m; bk = "child"; }
        else if (a < 82 && !notInBook.empty()) { best = nd.succ[notInBook[r.below((int)notInBook.size())]].m; bk = "nonbook"; }
        if (kind == "invalid" && r.chance(70)) { best = Move(); bk = "empty"; }
        int time = r.chance(10) ? (r.chance(50) ? 0 : INT_MAX - r.below(3)) : r.below(200000);
        return doSet(node, score, best, time, kind, bk);
    }
    bool doSet(int node, int score, Move best, int time, const std::string& kind, const std::string& bk) {
        const MNode& nd = M.n[node];
        best.setScore(0);
        log("S n" + std::to_string(node) + " score=" + scoreStr(score) + " best=" + (best.isEmpty() ? std::string("-") : cmStr(best.getCompressedMove())) + "(" + bk + ") time=" + std::to_string(time));
        BookNode* bn = BT::node(*book, nd.hash);
        if (!bn) { viol({"node-set", "node n" + std::to_string(node) + " not found by getBookNode"}); return true; }
        bn->setSearchResult(BT::data(*book), best, score, time);
        M.n[node].st.ss = score; M.n[node].st.best = best; M.n[node].st.time = (U32)time;
        // what Book::extendBook does when a search result is committed: the node's new record is appended to the backup file, which
        // then holds several records of that node; reading the file back must keep the last one
        if (!backupFile.empty() && r.chance(70)) { BT::writeBackup(*book, *bn); backupExp[nd.hash] = M.n[node].st; rep.add("backup_records_appended_for_existing_nodes"); }
        rep.add("op_set"); rep.add("set_score_" + kind); rep.add("set_best_" + bk);
        return true;
    }

    bool opPending() {
        int N = (int)M.n.size();
        bool add = M.pending.empty() || (M.pending.size() < 8 && r.chance(55));
        if (add) {
            int node = pickNode(); if (M.pending.count(node)) node = r.below(N);
            if (M.pending.count(node)) return false;
            log("P+ n" + std::to_string(node));
            BT::addPending(*book, M.n[node].hash); M.pending.insert(node); rep.add("op_pending_on");
        } else {
            auto it = M.pending.begin(); std::advance(it, r.below((int)M.pending.size())); int node = *it;
            log("P- n" + std::to_string(node));
            BT::removePending(*book, M.n[node].hash); M.pending.erase(node); rep.add("op_pending_off");
        }
        return true;
    }

    bool opImport(int nLines, int maxLen) {
        // lines (each from the start position) with shared prefixes -> GameTree with variations
        std::vector<std::vector<ref::Mv>> mvLines;
        ref::Pos start; ref::parseFEN(ref::startFEN, start);
        for (int li = 0; li < nLines; li++) {
            std::vector<ref::Mv> line; ref::Pos p = start;
            if (!mvLines.empty() && r.chance(75)) {
                const auto& src = mvLines[r.below((int)mvLines.size())];
                int cut = r.below((int)src.size() + 1);
                for (int k = 0; k < cut; k++) { line.push_back(src[k]); p = ref::make(p, src[k]); }
            } else if (M.n.size() > 1 && r.chance(50)) {   // start with the path of an existing book node
                int nd = r.below((int)M.n.size()); std::vector<ref::Mv> pre;
                for (int k = nd; M.n[k].firstParent >= 0; k = M.n[k].firstParent) pre.push_back(M.n[k].via);
                std::reverse(pre.begin(), pre.end());
                for (auto& m : pre) { line.push_back(m); p = ref::make(p, m); }
            }
            int len = r.range(1, maxLen);
            while ((int)line.size() < len) {
                std::vector<ref::Mv> l; ref::genLegal(p, l);
                if (l.empty()) break;
                ref::Mv m = r.chance(70) ? l[r.below(std::min<int>(narrowK, (int)l.size()))] : l[r.below((int)l.size())];
                line.push_back(m); p = ref::make(p, m);
            }
            if (line.size() > 78) line.resize(78);
            if (!line.empty()) mvLines.push_back(line);
        }
        if (mvLines.empty()) return false;
        int longest = 0; for (auto& l : mvLines) longest = std::max<int>(longest, (int)l.size());
        int maxPly = r.chance(30) ? longest + r.below(3) : r.range(0, longest);
        GameTree gt;
        std::string desc;
        for (auto& l : mvLines) {
            std::vector<Move> ml; for (auto& m : l) ml.push_back(toEng(m));
            gt.insertMoves(ml);
            if (desc.size() < 1500) { desc += "["; for (size_t k = 0; k < l.size(); k++) desc += (k ? " " : "") + ref::mvStr(l[k]); desc += "]"; }
        }
        // model: every position of every line up to maxPly plies
        int expAdded = 0; size_t before = M.n.size();
        for (auto& l : mvLines) {
            int cur = 0;
            for (int k = 0; k < (int)l.size() && k < maxPly; k++) {
                int si = -1;
                for (size_t q = 0; q < M.n[cur].succ.size(); q++) if (M.n[cur].succ[q].rm == l[k]) si = (int)q;
                if (si < 0) { fprintf(stderr, "h_bb: import line move not legal in model\n"); exit(2); }
                int c = M.has(M.n[cur].succ[si].child);
                if (c < 0) { c = M.add(cur, si); expAdded++; backupExp[M.n[c].hash] = Stored(); }
                cur = c;
            }
        }
        log("I lines=" + std::to_string(mvLines.size()) + " maxPly=" + std::to_string(maxPly) + " newNodes=" + std::to_string(expAdded) + " " + desc + (desc.size() >= 1500 ? "..." : ""));
        GameNode gn = gt.getRootNode();
        int nAdded = 0;
        book->addToBook(maxPly, gn, nAdded);
        rep.add("op_import"); rep.add("import_lines", (long long)mvLines.size()); rep.add("import_nodes_added", expAdded);
        (void)before;
        if (nAdded != expAdded) { viol({"import-count", "addToBook reported " + std::to_string(nAdded) + " added positions, expected " + std::to_string(expAdded)}); return true; }
        return true;
    }

    bool opSaveLoad() {
        Expect E; std::string herr = computeExpect(M, K, E);
        if (!herr.empty()) { fprintf(stderr, "h_bb: %s\n", herr.c_str()); exit(2); }
        // a freshly loaded book has no valid score anywhere: the initial descent revisits nodes per path
        { double w = invalidPaths(M, E, 0, true);
          rep.stat["max_reload_descent_paths"] = std::max<long long>(rep.stat["max_reload_descent_paths"], (long long)std::min(w, 9e18));
          if (w > 2e7) { rep.add("saveload_skipped_path_blowup"); return false; } }
        if (!check()) return true;   // the state that is written has been verified
        if (failed) return true;
        return opSaveLoadMode(r.below(3));
    }
    bool opSaveLoadMode(int mode) {
        log(std::string("W mode=") + (mode == 0 ? "second-book-discard" : mode == 1 ? "second-book-continue" : "in-place"));
        Snap before; std::string err; Mismatch mm;
        if (!snapshot(*book, before, err)) { viol({"link", err}); return true; }
        book->writeToFile(tmpFile);
        { FILE* f = fopen(tmpFile.c_str(), "rb"); long sz = -1; if (f) { fseek(f, 0, SEEK_END); sz = ftell(f); fclose(f); }
          if (sz != (long)(16 * M.n.size())) { viol({"saveload", "book file has " + std::to_string(sz) + " bytes for " + std::to_string(M.n.size()) + " nodes"}); return true; } }
        rep.add("op_saveload"); rep.add(std::string("saveload_mode_") + (mode == 0 ? "discard" : mode == 1 ? "continue" : "inplace"));
        bool hadPending = !M.pending.empty();
        if (hadPending) rep.add("saveload_with_pending_marks");
        std::unique_ptr<BBook> b2;
        BBook* loaded;
        if (mode == 2) { book->readFromFile(tmpFile); loaded = book.get(); }
        else { b2.reset(new BBook(mode == 1 ? backupFile : std::string(), K.depthCost, K.own, K.other)); b2->readFromFile(tmpFile); loaded = b2.get(); }
        Snap after;
        if (!snapshot(*loaded, after, err)) { viol({"link", err}); return true; }
        // pending marks are run-time state and are not saved: expansion costs are compared only without them
        if (!compareSnaps(before, after, !hadPending, M, mm, !peBroken)) { viol(mm); return true; }
        std::set<int> savedPending = M.pending;
        M.pending.clear();
        bool ok = oracle(*loaded, M, K, mm);
        if (!ok) { mm.text = "(reloaded book) " + mm.text; viol(mm); return true; }
        if (mode == 0) M.pending = savedPending;
        else {
            peBroken = false;
            if (mode == 1) book = std::move(b2);
            if (!backupFile.empty()) { backupExp.clear(); for (auto& nd : M.n) backupExp[nd.hash] = nd.st; }
        }
        return true;
    }

    /** The backup file (append-only log of added nodes, rewritten on load) must load into the same graph. */
    void checkBackup() {
        Model MB = M; MB.pending.clear();
        for (auto& nd : MB.n) { auto it = backupExp.find(nd.hash); if (it == backupExp.end()) { viol({"backup", "harness: no backup expectation"}); return; } nd.st = it->second; }
        log("B read backup file into a third book");
        BBook b3("", K.depthCost, K.own, K.other);
        b3.readFromFile(backupFile);
        Mismatch mm;
        rep.add("backup_file_reads");
        if (!oracle(b3, MB, K, mm)) { mm.text = "(book read from backup file) " + mm.text; viol(mm); }
    }

    int succIdx(int node, const char* mv) const { for (size_t q = 0; q < M.n[node].succ.size(); q++) if (ref::mvStr(M.n[node].succ[q].rm) == mv) return (int)q; fprintf(stderr, "h_bb: directed move not found\n"); exit(2); }
    Move mv(int node, const char* m) const { return M.n[node].succ[succIdx(node, m)].m; }

    /** Directed history: the three node chain of the repository's own BookBuildTest::testBookNode (root, e2e4, e2e4 e7e5)
     *  with the same scores, played through the Book API, full oracle pass after every step. */
    void runDirectedChain() {
        tmpFile = "/tmp/h_bb_" + std::to_string((long)getpid()) + ".book";
        M.init();
        log("new book costs=100/200/50 (directed: chain of BookBuildTest::testBookNode)");
        book.reset(new BBook("", K.depthCost, K.own, K.other));
        rep.add("directed_histories");
        if (!check()) return;
        auto step = [&](bool ok) { return ok && !failed && check(); };
        if (!step(doAdd(0, succIdx(0, "e2e4")))) return;
        if (!step(doAdd(1, succIdx(1, "e7e5")))) return;
        if (!step(doSet(0, 17, mv(0, "d2d4"), 4711, "ord", "nonbook"))) return;
        if (!step(doSet(1, -16, mv(1, "c7c5"), 10000, "ord", "nonbook"))) return;
        if (!step(doSet(2, 17, mv(2, "g1f3"), 10000, "ord", "nonbook"))) return;
        if (!step(doSet(2, 10, mv(2, "g1f3"), 10000, "ord", "nonbook"))) return;   // n1 -16 -> -10, root stays 17
        if (!step(doSet(0, 5, mv(0, "d2d4"), 10000, "ord", "nonbook"))) return;
        if (!step(doSet(1, -25, mv(1, "c7c5"), 10000, "ord", "nonbook"))) return;
        if (!step(doSet(2, 17, mv(2, "g1f3"), 10000, "ord", "nonbook"))) return;
        if (!step(doSet(1, -18, mv(1, "c7c5"), 10000, "ord", "nonbook"))) return;
        step(opSaveLoadMode(0));
    }

    void run() {
        cls = r.below(100) < 50 ? 0 : (r.below(100) < 70 ? 1 : 2);
        static const int nk[] = {2, 3, 4, 6, 10, 99};
        narrowK = nk[r.below(6)];
        if (r.chance(50)) { K.depthCost = r.range(1, 250); K.own = r.range(1, 250); K.other = r.range(1, 250); }
        tmpFile = "/tmp/h_bb_" + std::to_string((long)getpid()) + ".book";
        if (r.chance(35)) backupFile = "/tmp/h_bb_" + std::to_string((long)getpid()) + ".backup";
        M.init();
        log("new book costs=" + std::to_string(K.depthCost) + "/" + std::to_string(K.own) + "/" + std::to_string(K.other) + " class=" + std::to_string(cls) + " narrow=" + std::to_string(narrowK) + (backupFile.empty() ? "" : " backup"));
        book.reset(new BBook(backupFile, K.depthCost, K.own, K.other));
        backupExp[M.n[0].hash] = Stored();
        rep.add("histories"); rep.add("histories_class_" + std::to_string(cls));
        if (!check()) return;
        const int nOps = r.range(150, 450);
        const size_t cap = cls == 2 ? 3000 : (cls == 1 ? 600 : 150);
        int sinceCheck = 0; int burst = 0;
        for (int op = 0; op < nOps && !failed; op++) {
            bool force = false, did = false;
            auto t0 = std::chrono::steady_clock::now();
            if (burst > 0) {   // after an import: give scores to fresh nodes so that the numbers matter
                burst--; did = opSet();
            } else {
                int a = r.below(100);
                int wImport = cls == 0 ? 3 : (cls == 1 ? 7 : 9);
                if (M.n.size() >= cap) wImport = 0;
                if (a < wImport) {
                    int nl = cls == 0 ? r.range(1, 3) : (cls == 1 ? r.range(1, 8) : r.range(4, 40));
                    int ml = cls == 0 ? 12 : (cls == 1 ? 30 : 60);
                    size_t before = M.n.size();
                    did = opImport(nl, ml); force = true;
                    if (did) burst = std::min<int>(1500, (int)((M.n.size() - before) * r.range(3, 12) / 10));
                    nOpsExtra += burst;
                } else if (a < wImport + 6) { did = opSaveLoad(); force = true; }
                else if (a < wImport + 6 + 12) did = opPending();
                else if (a < wImport + 6 + 12 + (M.n.size() >= cap + 200 ? 5 : 36)) did = opAdd();
                else did = opSet();
            }
            if (burst > 0) op--;   // burst sets do not count against the history length
            if (!did || failed) continue;
            long long us = std::chrono::duration_cast<std::chrono::microseconds>(std::chrono::steady_clock::now() - t0).count();
            rep.stat["max_op_microseconds"] = std::max(rep.stat["max_op_microseconds"], us);
            rep.add("ops");
            rep.stat["max_nodes"] = std::max<long long>(rep.stat["max_nodes"], (long long)M.n.size());
            int every = std::max<int>(1, (int)((M.n.size() + 299) / 300));
            if (force || ++sinceCheck >= every) { sinceCheck = 0; if (!check()) return; } else rep.add("ops_without_immediate_oracle_pass");
        }
        if (failed) return;
        if (!check()) return;
        if (!backupFile.empty()) checkBackup();
        if (failed) return;
        { Expect E; computeExpect(M, K, E); long long multi = 0; for (auto& p : E.pars) if (p.size() > 1) multi++;
          rep.add("final_nodes", (long long)M.n.size()); rep.add("final_multi_parent_nodes", multi); rep.add("final_edges", E.edges);
          int md = 0; for (int d : E.depth) md = std::max(md, d); rep.stat["max_depth"] = std::max<long long>(rep.stat["max_depth"], md);
          if (M.n.size() >= 2000) rep.add("histories_with_2000plus_nodes");
          long long valid = 0; for (int x : E.nm) if (x != O_INV) valid++; rep.add("final_nodes_with_valid_negamax", valid); }
        std::string all; for (auto& o : ops) { all += o; all += '\n'; }
        rep.distinct.insert(fnv(all));
        if (M.n.size() > 20) rep.sample("seed=" + std::to_string(seed) + " hist=" + std::to_string(hi) + ": " + std::to_string(ops.size()) + " ops, " + std::to_string(M.n.size()) + " nodes; last ops: " + tail(3).substr(0, 400), 3);
    }
    int nOpsExtra = 0;
};

// ---------------------------------------------------------------------------------------------
// Oracle self test: a clean book passes; each kind of corruption is noticed.
static void selfTest() {
    if (O_IGN != IGNORE_SCORE || O_INV != INVALID_SCORE || O_MATE0 != SearchConst::MATE0) { fprintf(stderr, "h_bb: score constants differ from the oracle's\n"); exit(2); }
    auto fail = [](const char* what) { fprintf(stderr, "h_bb oracle self test failed: %s\n", what); exit(2); };
    Hist H(0, -1, false);
    H.M.init(); H.book.reset(new BBook("", 100, 200, 50));
    Model& M = H.M; BBook& b = *H.book; Mismatch mm;
    auto addPath = [&](std::initializer_list<const char*> moves) {
        int cur = 0;
        for (const char* ms : moves) {
            int si = -1; for (size_t q = 0; q < M.n[cur].succ.size(); q++) if (ref::mvStr(M.n[cur].succ[q].rm) == ms) si = (int)q;
            if (si < 0) fail("move not found");
            int c = M.has(M.n[cur].succ[si].child);
            if (c < 0) { Position pos(M.n[cur].pos); std::vector<U64> ts; Move m = M.n[cur].succ[si].m; c = M.add(cur, si); BT::addPos(b, pos, m, ts); }
            cur = c;
        }
        return cur;
    };
    auto set = [&](int i, int score, const char* best) {
        Move m; for (auto& s : M.n[i].succ) if (ref::mvStr(s.rm) == best) m = s.m;
        BT::node(b, M.n[i].hash)->setSearchResult(BT::data(b), m, score, 1000 + i);
        M.n[i].st.ss = score; M.n[i].st.best = m; M.n[i].st.time = 1000 + i;
    };
    int a = addPath({"e2e4", "g8f6"}); int c = addPath({"d2d4", "g8f6"}); int x = addPath({"e2e4", "g8f6", "d2d4"});
    if (!oracle(b, M, H.K, mm)) fail(("clean unsearched book rejected: " + mm.text).c_str());
    set(0, 10, "g1f3"); set(M.n[a].firstParent, -8, "b8c6"); set(a, 7, "g1f3"); set(M.n[c].firstParent, -12, "b8c6"); set(c, 11, "g1f3"); set(x, -12, "b8c6");
    if (!oracle(b, M, H.K, mm)) fail(("clean book rejected: " + mm.text).c_str());
    { Expect E; computeExpect(M, H.K, E); if (E.pars[x].size() != 2 || E.nm[0] != 12 || E.nm[a] != 12 || E.nm[c] != 12) fail("expected values of the repository's DAG example not reproduced"); }
    // (a) a search score that was stored without propagation
    { BookNode* bn = BT::node(b, M.n[x].hash);
      BookNode::BookSerializeData orig; bn->serialize(orig);
      BookNode tmp(M.n[x].hash); BookData bd(100, 200, 50); tmp.setSearchResult(bd, M.n[x].st.best, -40, 5); BookNode::BookSerializeData bsd; tmp.serialize(bsd);
      bn->deSerialize(bsd); bn->setState(BookNode::INITIALIZED);
      Stored old = M.n[x].st; M.n[x].st.ss = -40; M.n[x].st.time = 5;
      if (oracle(b, M, H.K, mm) || mm.kind != "negamax") fail("unpropagated search score not noticed");
      bn->deSerialize(orig); bn->setState(BookNode::INITIALIZED); M.n[x].st = old;   // undo (no propagation code of the book involved)
      if (!oracle(b, M, H.K, mm)) fail(("restored book rejected: " + mm.text).c_str()); }
    // (b) pending mark without score update
    { BT::data(b).addPending(M.n[x].hash); M.pending.insert(x);
      if (oracle(b, M, H.K, mm) || mm.kind != "expansion-cost") fail("stale expansion cost not noticed");
      BT::node(b, M.n[x].hash)->updateScores(BT::data(b));
      if (!oracle(b, M, H.K, mm)) fail(("pending book rejected: " + mm.text).c_str());
      BT::removePending(b, M.n[x].hash); M.pending.erase(x);
      if (!oracle(b, M, H.K, mm)) fail(("un-pending book rejected: " + mm.text).c_str()); }
    // (c) save / load comparison
    { Snap s1, s2; std::string err; snapshot(b, s1, err); s2 = s1;
      if (!compareSnaps(s1, s2, true, M, mm)) fail("equal snapshots differ");
      s2[M.n[x].hash].depth = 5; if (compareSnaps(s1, s2, true, M, mm)) fail("depth difference not noticed");
      s2 = s1; s2[M.n[x].hash].nm++; if (compareSnaps(s1, s2, true, M, mm)) fail("score difference not noticed");
      s2 = s1; s2[M.n[x].hash].pars.pop_back(); if (compareSnaps(s1, s2, true, M, mm)) fail("link difference not noticed");
      Expect E; computeExpect(M, H.K, E);
      s2 = s1; s2[M.n[x].hash].depth = 1; if (compareExpect(b, s2, M, E, mm) || mm.kind != "depth") fail("wrong depth not noticed");
      s2 = s1; s2[M.n[x].hash].peW += 1; if (compareExpect(b, s2, M, E, mm) || mm.kind != "path-error") fail("wrong path error not noticed"); }
    // (d) missing hashToParent entry, (e) one-sided link
    { BT::h2pErase(b, M.n[x].hash, M.n[a].hash); if (oracle(b, M, H.K, mm) || mm.kind != "hashToParent") fail("missing hashToParent entry not noticed"); }
    { BBook b2("", 100, 200, 50); Model M2; M2.init();
      Position pos(M2.n[0].pos); std::vector<U64> ts; Move m = M2.n[0].succ[0].m; M2.add(0, 0); BT::addPos(b2, pos, m, ts);
      Costs K; if (!oracle(b2, M2, K, mm)) fail("two node book rejected");
      BT::node(b2, M2.n[0].hash)->addChild(M2.n[0].succ[1].cm, BT::node(b2, M2.n[1].hash));
      if (oracle(b2, M2, K, mm) || mm.kind != "link") fail("one-sided link not noticed"); }
    rep.stat.clear(); rep.nViol = 0; gEvalNodes = 0;
}

int main(int argc, char** argv) {
    requireSelfTest();
    ComputerPlayer::initEngine();
    uint64_t seed = (uint64_t)argLL(argc, argv, 1, 1);
    long long nh = argLL(argc, argv, 2, 10);
    const char* hashFile = argc > 3 ? argv[3] : nullptr;
    const char* only = getenv("H_BB_ONLY");
    bool trace = getenv("H_BB_TRACE") != nullptr;
    static std::ostringstream sink; std::streambuf* oldBuf = std::cout.rdbuf(sink.rdbuf());   // readFromFile prints "nZeroTime:"
    selfTest();
    rep.add("oracle_self_tests");
    std::string tmp1 = "/tmp/h_bb_" + std::to_string((long)getpid()) + ".book", tmp2 = "/tmp/h_bb_" + std::to_string((long)getpid()) + ".backup";
    if (!only || atoll(only) == -1) { Hist D(seed, -1, trace); D.runDirectedChain(); sink.str(""); }
    for (long long hi = 0; hi < nh; hi++) {
        if (only && atoll(only) != hi) continue;
        Hist H(seed, hi, trace);
        H.run();
        sink.str("");
    }
    setCrumb("");
    unlink(tmp1.c_str()); unlink(tmp2.c_str());
    rep.add("node_evaluations", gEvalNodes);
    rep.finish(hashFile);
    std::cout.rdbuf(oldBuf);
    return 0;
}
