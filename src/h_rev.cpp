// h_rev: reverse move generation (RevMoveGen) vs forward moves, judged with refchess (C15).
//   h_rev <seed> <npairs> [hashfile]
#include "hcommon.hpp"
#include "vposgen.hpp"
#include "revmovegen.hpp"
#include <algorithm>
#include <sstream>

using namespace hc;
using posgen::Rng;
static Report rep;

static std::string umStr(const UnMove& u) {
    std::ostringstream o;
    o << TextIO::moveToUCIString(u.move) << "(cap=" << u.ui.capturedPiece << ",castle=" << u.ui.castleMask << ",ep=" << (u.ui.epSquare.isValid() ? TextIO::squareToString(u.ui.epSquare) : std::string("-")) << ")";
    return o.str();
}

// every un-move of Q: restores a position in which the move is legal and leads back to Q
static void checkConsistency(const Position& Q, const std::vector<UnMove>& ums, const std::string& origin) {
    const std::string qfen = TextIO::toFEN(Q);
    for (size_t i = 0; i < ums.size(); i++) {
        const UnMove& u = ums[i];
        for (size_t j = 0; j < i; j++) if (ums[j] == u) { rep.viol("duplicate-unmove", qfen + " " + umStr(u)); break; }
        setCrumb("consistency " + qfen + " " + umStr(u));
        Position P(Q);
        P.unMakeMove(u.move, u.ui);
        rep.add("unmoves_checked");
        ref::Pos RP = toRef(P);
        if (u.ui.halfMoveClock != 0) rep.viol("unmove-halfmoveclock-not-zero", qfen + " " + umStr(u));
        if (!ref::plausible(RP)) { rep.viol("unmove-restores-implausible-position", qfen + " " + umStr(u) + " -> " + ref::toFEN(RP)); continue; }
        ref::Mv m = toRef(u.move);
        if (!ref::isLegal(RP, m)) { rep.viol("unmove-not-legal-in-predecessor", qfen + " " + umStr(u) + " predecessor " + ref::toFEN(RP)); continue; }
        // castle mask of the predecessor must be consistent with king/rook at home (else the engine could not have had that right)
        int cm = P.getCastleMask();
        auto home = [&](int k, int ks, int rk, int rs) { return P.getPiece(Square(ks)) == k && P.getPiece(Square(rs)) == rk; };
        if (((cm & 1) && !home(Piece::WKING, 4, Piece::WROOK, 0)) || ((cm & 2) && !home(Piece::WKING, 4, Piece::WROOK, 7)) ||
            ((cm & 4) && !home(Piece::BKING, 60, Piece::BROOK, 56)) || ((cm & 8) && !home(Piece::BKING, 60, Piece::BROOK, 63)))
            rep.viol("unmove-castle-rights-without-pieces", qfen + " " + umStr(u));
        // e.p. square of the predecessor must be geometrically possible
        if (P.getEpSquare().isValid()) {
            ref::Pos t = RP; t.ep = P.getEpSquare().asInt();
            int f = ref::fileOf(t.ep);
            bool ok = t.wtm ? (ref::rankOf(t.ep) == 5 && t.b[ref::sq(f, 4)] == ref::BP && !t.b[ref::sq(f, 5)] && !t.b[ref::sq(f, 6)])
                            : (ref::rankOf(t.ep) == 2 && t.b[ref::sq(f, 3)] == ref::WP && !t.b[ref::sq(f, 2)] && !t.b[ref::sq(f, 1)]);
            if (!ok) rep.viol("unmove-impossible-ep-square", qfen + " " + umStr(u));
        }
        // playing the move again reproduces Q (and the undo information)
        Position Q2(P); UndoInfo ui2;
        Q2.makeMove(u.move, ui2);
        TextIO::fixupEPSquare(Q2);
        Q2.setHalfMoveClock(Q.getHalfMoveClock()); Q2.setFullMoveCounter(Q.getFullMoveCounter());
        Position Qf(Q); TextIO::fixupEPSquare(Qf);
        if (!(Q2 == Qf)) rep.viol("unmove-does-not-lead-back", qfen + " " + umStr(u) + " replay gives " + TextIO::toFEN(Q2));
        if (ui2.capturedPiece != u.ui.capturedPiece || ui2.castleMask != u.ui.castleMask || ui2.epSquare != u.ui.epSquare)
            rep.viol("unmove-undo-info-mismatch", qfen + " " + umStr(u));
    }
    rep.add("consistency_positions");
    (void)origin;
}

// Directed starts for the rare (P, m) classes random games practically never produce.
// (a) an unmoved corner rook that still carries its castling right is captured - by any kind of piece, the king included
static bool cornerRookCapture(Rng& r, ref::Pos& P, ref::Mv& first) {
    using namespace ref;
    Pos p; for (int i = 0; i < 64; i++) p.b[i] = EMPTY;
    bool targetWhite = r.chance(50);
    int corner = (targetWhite ? 0 : 56) + (r.chance(50) ? 0 : 7);
    // victim side: king on its home square, the target rook (and maybe the other one) with rights
    int vk = targetWhite ? 4 : 60;
    p.b[vk] = targetWhite ? WK : BK; p.b[corner] = targetWhite ? WR : BR;
    p.castle = (corner == 0 ? CW_LONG : corner == 7 ? CW_SHORT : corner == 56 ? CB_LONG : CB_SHORT);
    int otherCorner = (targetWhite ? 0 : 56) + (corner % 8 == 0 ? 7 : 0);
    if (r.chance(50)) { p.b[otherCorner] = targetWhite ? WR : BR; p.castle |= (otherCorner == 0 ? CW_LONG : otherCorner == 7 ? CW_SHORT : otherCorner == 56 ? CB_LONG : CB_SHORT); }
    // capturer
    int kind = (const int[]){K_K, K_K, K_Q, K_R, K_B, K_N, K_P}[r.below(7)];
    int own = targetWhite ? BK : WK;
    int from = -1;
    for (int t = 0; t < 100 && from < 0; t++) {
        int s = r.below(64); if (p.b[s]) continue;
        int dx = fileOf(s) - fileOf(corner), dy = rankOf(s) - rankOf(corner), ax = std::abs(dx), ay = std::abs(dy);
        bool ok = false;
        switch (kind) {
        case K_K: ok = ax <= 1 && ay <= 1; break;
        case K_N: ok = (ax == 1 && ay == 2) || (ax == 2 && ay == 1); break;
        case K_R: ok = (dx == 0 || dy == 0); break;
        case K_B: ok = ax == ay; break;
        case K_Q: ok = dx == 0 || dy == 0 || ax == ay; break;
        case K_P: ok = ax == 1 && dy == (targetWhite ? 1 : -1); break;    // promotion capture
        }
        if (ok) from = s;
    }
    if (from < 0) return false;
    p.b[from] = own + kind;
    if (kind != K_K) { for (int t = 0; t < 100; t++) { int s = r.below(64); if (!p.b[s]) { p.b[s] = own; break; } } }
    int extra = r.range(0, 6);
    for (int i = 0; i < extra; i++) { int s = r.below(64); if (p.b[s]) continue; int k2 = (const int[]){K_Q, K_R, K_B, K_N, K_P, K_P}[r.below(6)]; if (k2 == K_P && (rankOf(s) == 0 || rankOf(s) == 7)) continue; p.b[s] = (r.chance(50) ? WK : BK) + k2; }
    p.wtm = !targetWhite; p.ep = -1; p.hmc = r.below(30); p.fullMove = 30;
    if (!plausible(p) || !posgen::countsOk(p)) return false;
    std::vector<Mv> l; genLegal(p, l);
    std::vector<Mv> caps; for (auto& m : l) if (m.from == from && m.to == corner) caps.push_back(m);
    if (caps.empty()) return false;
    P = p; first = caps[r.below((int)caps.size())];
    return true;
}

// (b) an e.p. right with capturing pawns on both neighbouring files of which exactly one may capture (the other is pinned)
static bool epOneOfTwo(Rng& r, ref::Pos& P) {
    using namespace ref;
    Pos p; for (int i = 0; i < 64; i++) p.b[i] = EMPTY;
    bool whitePushed = r.chance(50);
    int f = r.range(1, 6), rk = whitePushed ? 3 : 4;
    int pushed = whitePushed ? WP : BP, capt = whitePushed ? BP : WP;
    p.b[sq(f, rk)] = pushed; p.b[sq(f - 1, rk)] = capt; p.b[sq(f + 1, rk)] = capt;
    p.ep = sq(f, whitePushed ? 2 : 5);
    // kings and a few pieces at random: the filter below keeps the positions where exactly one capture is legal
    for (int c = 0; c < 2; c++) for (int t = 0; t < 100; t++) { int s = r.below(64); if (!p.b[s] && s != p.ep && s != sq(f, whitePushed ? 1 : 6)) { p.b[s] = c ? BK : WK; break; } }
    int extra = r.range(1, 5);
    for (int i = 0; i < extra; i++) { int s = r.below(64); if (p.b[s] || s == p.ep || s == sq(f, whitePushed ? 1 : 6)) continue; int k2 = (const int[]){K_Q, K_R, K_R, K_B, K_B, K_N}[r.below(6)]; p.b[s] = (r.chance(65) == whitePushed ? WK : BK) + k2; }
    p.wtm = !whitePushed; p.castle = 0; p.hmc = 0; p.fullMove = 30;
    if (!plausible(p) || !posgen::countsOk(p)) return false;
    std::vector<Mv> l; genLegal(p, l);
    int n = 0; for (auto& m : l) if (isEnPassant(p, m)) n++;
    if (n != 1) return false;
    P = p; return true;
}

int main(int argc, char** argv) {
    requireSelfTest();
    ComputerPlayer::initEngine();
    uint64_t seed = (uint64_t)argLL(argc, argv, 1, 1);
    long long npairs = argLL(argc, argv, 2, 10000);
    Rng r(seed);
    std::vector<ref::Pos> tricky, storm;
    for (auto& f : posgen::trickyFens()) { ref::Pos p; ref::parseFEN(f, p); tricky.push_back(p); }
    for (auto& f : posgen::stormFens()) { ref::Pos p; ref::parseFEN(f, p); storm.push_back(p); }
    long long done = 0;
    while (done < npairs) {
        int k = r.below(10);
        ref::Pos start; posgen::Style st = posgen::TACTICAL;
        if (k < 4) start = tricky[0];
        else if (k < 7) start = tricky[r.below((int)tricky.size())];
        else if (k < 9) { start = storm[r.below((int)storm.size())]; st = posgen::STORM; }
        else start = posgen::synthetic(r, r.below(posgen::T_NTEMPLATES));
        ref::Mv forced; bool haveForced = false;
        bool directed = false;
        if (r.chance(30)) {
            bool ok = false; directed = true;
            if (r.chance(50)) { for (int t = 0; t < 300 && !ok; t++) ok = cornerRookCapture(r, start, forced); if (ok) { haveForced = true; rep.add("directed_corner_rook_capture_walks"); } }
            else { for (int t = 0; t < 3000 && !ok; t++) ok = epOneOfTwo(r, start); if (ok) rep.add("directed_ep_one_of_two_capturers_walks"); }
            if (!ok) continue;
        }
        if (!ref::epLegal(start)) start.ep = -1;
        Position pos;
        if (!readFEN(ref::toFEN(start), pos)) continue;
        ref::Pos R = start;
        int len = directed ? r.range(1, 5) : r.range(5, 150);
        for (int ply = 0; ply < len && done < npairs; ply++) {
            std::vector<ref::Mv> l; ref::genLegal(R, l);
            if (l.empty()) break;
            ref::Mv rm = posgen::pickMove(r, R, l, st);
            if (ply == 0 && haveForced) rm = forced;
            Move m = toEng(rm);
            Position P(pos); UndoInfo ui;
            setCrumb("completeness " + TextIO::toFEN(P) + " move " + ref::mvStr(rm));
            pos.makeMove(m, ui);
            TextIO::fixupEPSquare(pos);     // RevMoveGen's documented domain: e.p. square only when a capture is legal (as Game does)
            R = ref::make(R, rm); if (!ref::epLegal(R)) R.ep = -1;
            done++;
            rep.add("pairs");
            bool pHadEp = P.getEpSquare().isValid();
            for (int all = 0; all < 2; all++) {
                std::vector<UnMove> ums;
                RevMoveGen::genMoves(pos, ums, all == 1);
                bool found = false;
                for (auto& um : ums)
                    if (um.move == m && um.ui.capturedPiece == ui.capturedPiece && um.ui.castleMask == ui.castleMask && um.ui.epSquare == ui.epSquare) found = true;
                if (!found && (all == 1 || !pHadEp))
                    rep.viol(all ? "predecessor-missing" : "predecessor-missing-without-ep-option",
                             TextIO::toFEN(P) + " move " + ref::mvStr(rm) + " -> " + TextIO::toFEN(pos) + " undo(cap=" + std::to_string(ui.capturedPiece) + ",castle=" + std::to_string(ui.castleMask) + ")");
                if (all == 1) {
                    rep.add("unmoves_listed", (long long)ums.size());
                    if (r.below(4) == 0) checkConsistency(pos, ums, "game");
                }
            }
            if (pHadEp) rep.add("pairs_with_ep_in_predecessor");
            if (ref::isCastle(toRef(P), rm)) rep.add("pairs_castling");
            if (rm.promo) rep.add(ui.capturedPiece != Piece::EMPTY ? "pairs_capture_promotion" : "pairs_promotion");
            if (ref::isEnPassant(toRef(P), rm)) rep.add("pairs_en_passant");
            if (P.getCastleMask() != pos.getCastleMask()) rep.add("pairs_losing_castling_rights");
            bool nontrivial = pHadEp || rm.promo || P.getCastleMask() != pos.getCastleMask() || ui.capturedPiece != Piece::EMPTY;
            if (nontrivial) rep.distinct.insert(fnv(TextIO::toFEN(P) + ref::mvStr(rm)));
            if (nontrivial && done % 4001 == 17) rep.sample(TextIO::toFEN(P) + " move " + ref::mvStr(rm));
        }
        // synthetic Q for consistency only
        if (r.chance(30)) {
            ref::Pos s = posgen::synthetic(r, r.below(posgen::T_NTEMPLATES));
            Position Q;
            if (readFEN(ref::toFEN(s), Q)) { std::vector<UnMove> ums; RevMoveGen::genMoves(Q, ums, r.chance(50)); checkConsistency(Q, ums, "synthetic"); rep.add("synthetic_positions"); }
        }
    }
    rep.finish(argc > 3 ? argv[3] : nullptr);
    return 0;
}
