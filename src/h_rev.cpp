// h_rev: reverse move generation (RevMoveGen) vs forward moves, judged with refchess (C15).
//   h_rev <seed> <npairs> [hashfile]
#include "hcommon.hpp"
#include "vposgen.hpp"
#include "revmovegen.hpp"
#include <algorithm>
#include <sstream>

using namespace hc;
using posgen::Rng;
static Report rep;

static std::string umStr(const UnMove& u) {
    std::ostringstream o;
    o << TextIO::moveToUCIString(u.move) << "(cap=" << u.ui.capturedPiece << ",castle=" << u.ui.castleMask << ",ep=" << (u.ui.epSquare.isValid() ? TextIO::squareToString(u.ui.epSquare) : std::string("-")) << ")";
    return o.str();
}

// every un-move of Q: restores a position in which the move is legal and leads back to Q
static void checkConsistency(const Position& Q, const std::vector<UnMove>& ums, const std::string& origin) {
    const std::string qfen = TextIO::toFEN(Q);
    for (size_t i = 0; i < ums.size(); i++) {
        const UnMove& u = ums[i];
        for (size_t j = 0; j < i; j++) if (ums[j] == u) { rep.viol("duplicate-unmove", qfen + " " + umStr(u)); break; }
        setCrumb("consistency " + qfen + " " + umStr(u));
        Position P(Q);
        P.unMakeMove(u.move, u.ui);
        rep.add("unmoves_checked");
        ref::Pos RP = toRef(P);
        if (u.ui.halfMoveClock != 0) rep.viol("unmove-halfmoveclock-not-zero", qfen + " " + umStr(u));
        if (!ref::plausible(RP)) { rep.viol("unmove-restores-implausible-position", qfen + " " + umStr(u) + " -> " + ref::toFEN(RP)); continue; }
        ref::Mv m = toRef(u.move);
        if (!ref::isLegal(RP, m)) { rep.viol("unmove-not-legal-in-predecessor", qfen + " " + umStr(u) + " predecessor " + ref::toFEN(RP)); continue; }
        // castle mask of the predecessor must be consistent with king/rook at home (else the engine could not have had that right)
        int cm = P.getCastleMask();
        auto home = [&](int k, int ks, int rk, int rs) { return P.getPiece(Square(ks)) == k && P.getPiece(Square(rs)) == rk; };
        if (((cm & 1) && !home(Piece::WKING, 4, Piece::WROOK, 0)) || ((cm & 2) && !home(Piece::WKING, 4, Piece::WROOK, 7)) ||
            ((cm & 4) && !home(Piece::BKING, 60, Piece::BROOK, 56)) || ((cm & 8) && !home(Piece::BKING, 60, Piece::BROOK, 63)))
            rep.viol("unmove-castle-rights-without-pieces", qfen + " " + umStr(u));
        // e.p. square of the predecessor must be geometrically possible
        if (P.getEpSquare().isValid()) {
            ref::Pos t = RP; t.ep = P.getEpSquare().asInt();
            int f = ref::fileOf(t.ep);
            bool ok = t.wtm ? (ref::rankOf(t.ep) == 5 && t.b[ref::sq(f, 4)] == ref::BP && !t.b[ref::sq(f, 5)] && !t.b[ref::sq(f, 6)])
                            : (ref::rankOf(t.ep) == 2 && t.b[ref::sq(f, 3)] == ref::WP && !t.b[ref::sq(f, 2)] && !t.b[ref::sq(f, 1)]);
            if (!ok) rep.viol("unmove-impossible-ep-square", qfen + " " + umStr(u));
        }
        // playing the move again reproduces Q (and the undo information)
        Position Q2(P); UndoInfo ui2;
        Q2.makeMove(u.move, ui2);
        TextIO::fixupEPSquare(Q2);
        Q2.setHalfMoveClock(Q.getHalfMoveClock()); Q2.setFullMoveCounter(Q.getFullMoveCounter());
        Position Qf(Q); TextIO::fixupEPSquare(Qf);
        if (!(Q2 == Qf)) rep.viol("unmove-does-not-lead-back", qfen + " " + umStr(u) + " replay gives " + TextIO::toFEN(Q2));
        if (ui2.capturedPiece != u.ui.capturedPiece || ui2.castleMask != u.ui.castleMask || ui2.epSquare != u.ui.epSquare)
            rep.viol("unmove-undo-info-mismatch", qfen + " " + umStr(u));
    }
    rep.add("consistency_positions");
    (void)origin;
}

int main(int argc, char** argv) {
    requireSelfTest();
    ComputerPlayer::initEngine();
    uint64_t seed = (uint64_t)argLL(argc, argv, 1, 1);
    long long npairs = argLL(argc, argv, 2, 10000);
    Rng r(seed);
    std::vector<ref::Pos> tricky, storm;
    for (auto& f : posgen::trickyFens()) { ref::Pos p; ref::parseFEN(f, p); tricky.push_back(p); }
    for (auto& f : posgen::stormFens()) { ref::Pos p; ref::parseFEN(f, p); storm.push_back(p); }
    long long done = 0;
    while (done < npairs) {
        int k = r.below(10);
        ref::Pos start; posgen::Style st = posgen::TACTICAL;
        if (k < 4) start = tricky[0];
        else if (k < 7) start = tricky[r.below((int)tricky.size())];
        else if (k < 9) { start = storm[r.below((int)storm.size())]; st = posgen::STORM; }
        else start = posgen::synthetic(r, r.below(posgen::T_NTEMPLATES));
        if (!ref::epLegal(start)) start.ep = -1;
        Position pos;
        if (!readFEN(ref::toFEN(start), pos)) continue;
        ref::Pos R = start;
        int len = r.range(5, 150);
        for (int ply = 0; ply < len && done < npairs; ply++) {
            std::vector<ref::Mv> l; ref::genLegal(R, l);
            if (l.empty()) break;
            ref::Mv rm = posgen::pickMove(r, R, l, st);
            Move m = toEng(rm);
            Position P(pos); UndoInfo ui;
            setCrumb("completeness " + TextIO::toFEN(P) + " move " + ref::mvStr(rm));
            pos.makeMove(m, ui);
            TextIO::fixupEPSquare(pos);     // RevMoveGen's documented domain: e.p. square only when a capture is legal (as Game does)
            R = ref::make(R, rm); if (!ref::epLegal(R)) R.ep = -1;
            done++;
            rep.add("pairs");
            bool pHadEp = P.getEpSquare().isValid();
            for (int all = 0; all < 2; all++) {
                std::vector<UnMove> ums;
                RevMoveGen::genMoves(pos, ums, all == 1);
                bool found = false;
                for (auto& um : ums)
                    if (um.move == m && um.ui.capturedPiece == ui.capturedPiece && um.ui.castleMask == ui.castleMask && um.ui.epSquare == ui.epSquare) found = true;
                if (!found && (all == 1 || !pHadEp))
                    rep.viol(all ? "predecessor-missing" : "predecessor-missing-without-ep-option",
                             TextIO::toFEN(P) + " move " + ref::mvStr(rm) + " -> " + TextIO::toFEN(pos) + " undo(cap=" + std::to_string(ui.capturedPiece) + ",castle=" + std::to_string(ui.castleMask) + ")");
                if (all == 1) {
                    rep.add("unmoves_listed", (long long)ums.size());
                    if (r.below(4) == 0) checkConsistency(pos, ums, "game");
                }
            }
            if (pHadEp) rep.add("pairs_with_ep_in_predecessor");
            if (ref::isCastle(toRef(P), rm)) rep.add("pairs_castling");
            if (rm.promo) rep.add(ui.capturedPiece != Piece::EMPTY ? "pairs_capture_promotion" : "pairs_promotion");
            if (ref::isEnPassant(toRef(P), rm)) rep.add("pairs_en_passant");
            if (P.getCastleMask() != pos.getCastleMask()) rep.add("pairs_losing_castling_rights");
            bool nontrivial = pHadEp || rm.promo || P.getCastleMask() != pos.getCastleMask() || ui.capturedPiece != Piece::EMPTY;
            if (nontrivial) rep.distinct.insert(fnv(TextIO::toFEN(P) + ref::mvStr(rm)));
            if (nontrivial && done % 4001 == 17) rep.sample(TextIO::toFEN(P) + " move " + ref::mvStr(rm));
        }
        // synthetic Q for consistency only
        if (r.chance(30)) {
            ref::Pos s = posgen::synthetic(r, r.below(posgen::T_NTEMPLATES));
            Position Q;
            if (readFEN(ref::toFEN(s), Q)) { std::vector<UnMove> ums; RevMoveGen::genMoves(Q, ums, r.chance(50)); checkConsistency(Q, ums, "synthetic"); rep.add("synthetic_positions"); }
        }
    }
    rep.finish(argc > 3 ? argv[3] : nullptr);
    return 0;
}
