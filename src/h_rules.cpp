// h_rules: monitors for C01 (move generation), C02 (position state under make/unmake histories)
// and the move-text part of C17, all against refchess / from-scratch recomputation.
//   h_rules c01  <seed> <ncases> [hashfile]
//   h_rules c02  <seed> <nwalks> [hashfile]
//   h_rules c17m <seed> <ncases> [hashfile]
//   h_rules fen  <fen>...            (replay helper: run the C01 checks on given FENs)
#include "hcommon.hpp"
#include "vposgen.hpp"
#include "game.hpp"
#include "material.hpp"
#include "parameters.hpp"
#include <algorithm>
#include <cstring>
#include <sstream>

using namespace hc;
using posgen::Rng;

static Report rep;

static std::string mvs(const std::vector<ref::Mv>& v) { std::string s; for (auto& m : v) { s += ref::mvStr(m); s += ' '; } return s; }

static std::vector<ref::Mv> engList(const MoveList& ml) {
    std::vector<ref::Mv> v;
    for (int i = 0; i < ml.size; i++) v.push_back(toRef(ml[i]));
    return v;
}

static bool hasDup(std::vector<ref::Mv> v) { std::sort(v.begin(), v.end()); return std::adjacent_find(v.begin(), v.end()) != v.end(); }
static bool contains(const std::vector<ref::Mv>& v, const ref::Mv& m) { return std::find(v.begin(), v.end(), m) != v.end(); }

// ---------------------------------------------------------------------------------------------
// C01

static void checkC01(const ref::Pos& R, const std::string& origin) {
    const std::string fen = ref::toFEN(R);
    setCrumb("fen " + fen);
    Position P;
    if (!readFEN(fen, P)) { rep.add("fen_rejected"); return; }
    rep.add("positions");
    ref::Pos RP = toRef(P);
    // The FEN reader may drop castling flags / e.p. squares; for a plausible position it must keep
    // exactly the legally capturable e.p. square and the castling rights with king+rook at home.
    {
        bool epWant = ref::epLegal(R);
        if ((RP.ep >= 0) != epWant || (epWant && RP.ep != R.ep))
            rep.viol("fen-ep", fen + " engine ep " + std::to_string(RP.ep));
        if (RP.castle != R.castle) rep.viol("fen-castle", fen);
        if (memcmp(RP.b, R.b, 64) != 0 || RP.wtm != R.wtm) rep.viol("fen-board", fen);
    }
    std::vector<ref::Mv> legal; ref::genLegal(R, legal);
    std::vector<ref::Mv> sortedLegal = legal; std::sort(sortedLegal.begin(), sortedLegal.end());
    const bool chk = ref::inCheck(R);

    // 1. legal move set
    MoveList pl; MoveGen::pseudoLegalMoves(P, pl);
    std::vector<ref::Mv> pseudo = engList(pl);
    if (hasDup(pseudo)) rep.viol("dup-pseudo", fen);
    MoveList ll = pl; MoveGen::removeIllegal(P, ll);
    std::vector<ref::Mv> eng = engList(ll);
    if (hasDup(eng)) rep.viol("dup-legal", fen);
    { auto e2 = eng; std::sort(e2.begin(), e2.end());
      if (e2 != sortedLegal) rep.viol("legal-set", fen + " engine: " + mvs(e2) + " ref: " + mvs(sortedLegal)); }
    rep.add("moves", (long long)legal.size());

    // 2. per-move verdicts on the pseudo-legal list, inCheck, sqAttacked
    bool engChk = MoveGen::inCheck(P);
    if (engChk != chk) rep.viol("inCheck", fen);
    for (const ref::Mv& m : pseudo) {
        bool l = MoveGen::isLegal(P, toEng(m), engChk);
        if (l != contains(legal, m)) rep.viol("isLegal", fen + " move " + ref::mvStr(m) + " engine says " + (l ? "legal" : "illegal"));
    }
    for (int s = 0; s < 64; s++) {
        bool a = MoveGen::sqAttacked(P, Square(s));
        if (a != ref::attacked(R, s, !R.wtm)) rep.viol("sqAttacked", fen + " sq " + ref::sqName(s));
    }

    // 3. check evasions
    if (chk) {
        MoveList ev; MoveGen::checkEvasions(P, ev);
        std::vector<ref::Mv> evl = engList(ev);
        if (hasDup(evl)) rep.viol("dup-evasions", fen);
        for (const ref::Mv& m : legal) if (!contains(evl, m)) rep.viol("evasions-miss", fen + " move " + ref::mvStr(m));
        rep.add("evasion_positions");
    }

    // 4. captures / captures and checks (only used when not in check by the search, but the
    //    contract holds for every position, so it is checked for every position)
    {
        MoveList cl; MoveGen::pseudoLegalCaptures(P, cl);
        std::vector<ref::Mv> caps = engList(cl);
        MoveList ccl; MoveGen::pseudoLegalCapturesAndChecks(P, ccl);
        std::vector<ref::Mv> capchk = engList(ccl);
        if (hasDup(caps)) rep.viol("dup-captures", fen);
        if (hasDup(capchk)) rep.viol("dup-capchecks", fen);
        for (const ref::Mv& m : legal) {
            int pk = m.promo ? ref::kindOf(m.promo) : -1;
            bool promoClass = pk == -1 || pk == ref::K_Q || pk == ref::K_N;
            if (!promoClass) continue;
            bool cap = ref::isCapture(R, m) || m.promo;
            if (cap && !contains(caps, m)) rep.viol("captures-miss", fen + " move " + ref::mvStr(m));
            if (!chk) { // the search calls this generator only when not in check
                bool gives = ref::inCheck(ref::make(R, m));
                if ((cap || gives) && !contains(capchk, m)) rep.viol("capchecks-miss", fen + " move " + ref::mvStr(m));
            }
        }
    }

    // 5. givesCheck + successor
    for (const ref::Mv& m : legal) {
        ref::Pos N = ref::make(R, m);
        bool gives = ref::inCheck(N);
        if (MoveGen::givesCheck(P, toEng(m)) != gives) rep.viol("givesCheck", fen + " move " + ref::mvStr(m));
        UndoInfo ui; Position Q(P); Q.makeMove(toEng(m), ui);
        ref::Pos NQ = toRef(Q);
        bool epWant = N.ep >= 0 && ref::epPseudo(N);
        bool ok = memcmp(NQ.b, N.b, 64) == 0 && NQ.wtm == N.wtm && NQ.castle == N.castle && NQ.hmc == N.hmc && NQ.fullMove == N.fullMove
                  && ((NQ.ep >= 0) == epWant) && (!epWant || NQ.ep == N.ep);
        if (!ok) rep.viol("successor", fen + " move " + ref::mvStr(m) + " engine " + TextIO::toFEN(Q) + " ref " + ref::toFEN(N));
    }

    posgen::Features ft = posgen::features(R);
    if (ft.inCheck) rep.add("f_incheck");
    if (ft.doubleCheck) rep.add("f_doublecheck");
    if (ft.pinned) rep.add("f_pinned");
    if (ft.epAvail) rep.add("f_ep_legal");
    if (ft.epPseudoOnly) rep.add("f_ep_pinned_illegal");
    if (ft.castleAvail) rep.add("f_castle_avail");
    if (ft.castleBlockedByAttack) rep.add("f_castle_blocked_by_attack");
    if (ft.promoAvail) rep.add("f_promo_avail");
    bool nontrivial = ft.inCheck || ft.pinned || ft.epAvail || ft.epPseudoOnly || ft.castleAvail || ft.castleBlockedByAttack || ft.promoAvail;
    if (nontrivial) rep.distinct.insert(fnv(boardKey(R) + std::to_string(R.ep)));
    rep.add("origin_" + origin);
    if (rep.nSamples < 6 && nontrivial && (rep.stat["positions"] % 997) == 1) rep.sample(fen + "  (" + origin + ", " + std::to_string(legal.size()) + " legal moves)");
}

static void perftCheck(const ref::Pos& R, int depth) {
    Position P;
    if (!readFEN(ref::toFEN(R), P)) return;
    // Game::perfT is the engine's own perft; computed here with the same public primitives
    struct L { static U64 perft(Position& pos, int d) {
        MoveList ml; MoveGen::pseudoLegalMoves(pos, ml); MoveGen::removeIllegal(pos, ml);
        if (d == 1) return ml.size;
        U64 n = 0; UndoInfo ui;
        for (int i = 0; i < ml.size; i++) { pos.makeMove(ml[i], ui); n += perft(pos, d - 1); pos.unMakeMove(ml[i], ui); }
        return n; } };
    U64 a = L::perft(P, depth);
    uint64_t b = ref::perft(R, depth);
    rep.add("perft_checks");
    if (a != b) rep.viol("perft", ref::toFEN(R) + " depth " + std::to_string(depth) + " engine " + std::to_string(a) + " ref " + std::to_string(b));
}

static int runC01(uint64_t seed, long long ncases) {
    Rng r(seed);
    std::vector<ref::Pos> tricky;
    for (auto& f : posgen::trickyFens()) { ref::Pos p; if (!ref::parseFEN(f, p)) { fprintf(stderr, "bad tricky fen %s\n", f.c_str()); return 2; } tricky.push_back(p); }
    std::vector<ref::Pos> storm;
    for (auto& f : posgen::stormFens()) { ref::Pos p; ref::parseFEN(f, p); storm.push_back(p); }
    long long done = 0;
    for (auto& p : tricky) { checkC01(p, "tricky"); done++; }
    while (done < ncases) {
        int kind = r.below(40);
        if (kind < 3) {
            // positions along a random game
            ref::Pos start; posgen::Style st; std::string origin;
            int k2 = r.below(10);
            if (k2 < 3) { ref::parseFEN(ref::startFEN, start); st = r.chance(50) ? posgen::TACTICAL : posgen::UNIFORM; origin = "game_start"; }
            else if (k2 < 7) { start = tricky[r.below((int)tricky.size())]; st = posgen::TACTICAL; origin = "game_tricky"; }
            else if (k2 < 9) { start = storm[r.below((int)storm.size())]; st = posgen::STORM; origin = "game_storm"; }
            else { start = posgen::synthetic(r, r.below(posgen::T_NTEMPLATES)); st = posgen::TACTICAL; origin = "game_synth"; }
            posgen::Game g = posgen::randomGame(r, start, r.range(10, 160), st);
            for (size_t i = 1; i < g.pos.size() && done < ncases; i++) {
                if (!r.chance(40)) continue;
                checkC01(g.pos[i], origin); done++;
                if (r.below(400) == 0) perftCheck(g.pos[i], g.pos[i].nMen() > 20 ? 2 : 3);
            }
        } else {
            int t = r.below(posgen::T_NTEMPLATES);
            ref::Pos p = posgen::synthetic(r, t);
            checkC01(p, std::string("synth_") + posgen::templateNames[t]); done++;
            if (r.below(400) == 0) perftCheck(p, 2);
        }
    }
    return 0;
}

// ---------------------------------------------------------------------------------------------
// C02

static int pieceVal(int p) { return ::pieceValue[p]; }

static std::string cmpFresh(const Position& P) {
    // Recompute everything from the 64 squares + flags, with this file's own arithmetic.
    std::ostringstream e;
    U64 bb[Piece::nPieceTypes] = {0}; U64 wbb = 0, bbb = 0;
    long long mat64 = 0; int wM = 0, bM = 0, wP = 0, bP = 0; int n = 0;
    static const long long mid[13] = { 0, 0, 5903, 9, 767, 91, 1, 0, 5903LL << 16, 9LL << 16, 767LL << 16, 91LL << 16, 1LL << 16 };
    int wk = -1, bk = -1;
    for (int s = 0; s < 64; s++) {
        int pc = P.getPiece(Square(s));
        if (pc == Piece::EMPTY) continue;
        n++;
        bb[pc] |= 1ULL << s;
        if (Piece::isWhite(pc)) { wbb |= 1ULL << s; if (pc != Piece::WKING) wM += pieceVal(pc); if (pc == Piece::WPAWN) wP += pieceVal(pc); }
        else { bbb |= 1ULL << s; if (pc != Piece::BKING) bM += pieceVal(pc); if (pc == Piece::BPAWN) bP += pieceVal(pc); }
        mat64 += mid[pc];
        if (pc == Piece::WKING) wk = s; if (pc == Piece::BKING) bk = s;
    }
    for (int pc = 1; pc < Piece::nPieceTypes; pc++)
        if (P.pieceTypeBB((Piece::Type)pc) != bb[pc]) e << " pieceTypeBB[" << pc << "]";
    if (P.whiteBB() != wbb) e << " whiteBB";
    if (P.blackBB() != bbb) e << " blackBB";
    if (P.occupiedBB() != (wbb | bbb)) e << " occupiedBB";
    if (P.wMtrl() != wM) e << " wMtrl"; if (P.bMtrl() != bM) e << " bMtrl";
    if (P.wMtrlPawns() != wP) e << " wMtrlPawns"; if (P.bMtrlPawns() != bP) e << " bMtrlPawns";
    if (P.nPieces() != n) e << " nPieces";
    if (wk >= 0 && P.wKingSq().asInt() != wk) e << " wKingSq";
    if (bk >= 0 && P.bKingSq().asInt() != bk) e << " bKingSq";
    if (wk >= 0 && P.getKingSq(true).asInt() != wk) e << " getKingSq(w)";
    if (bk >= 0 && P.getKingSq(false).asInt() != bk) e << " getKingSq(b)";
    if (P.materialId() != (int)(uint32_t)(uint64_t)mat64) e << " materialId(" << P.materialId() << " vs " << (int)(uint32_t)(uint64_t)mat64 << ")";
    // castle mask subset of "king and rook at home"
    int cm = P.getCastleMask();
    auto home = [&](int k, int ks, int rk, int rs) { return P.getPiece(Square(ks)) == k && P.getPiece(Square(rs)) == rk; };
    if ((cm & 1) && !home(Piece::WKING, 4, Piece::WROOK, 0)) e << " castle-a1";
    if ((cm & 2) && !home(Piece::WKING, 4, Piece::WROOK, 7)) e << " castle-h1";
    if ((cm & 4) && !home(Piece::BKING, 60, Piece::BROOK, 56)) e << " castle-a8";
    if ((cm & 8) && !home(Piece::BKING, 60, Piece::BROOK, 63)) e << " castle-h8";
    // hash keys: incremental vs the engine's own from-scratch function, and vs a freshly built position
    Position C(P);
    if (C.computeZobristHash() != P.zobristHash()) e << " zobrist(incremental != computeZobristHash)";
    Position F;
    for (int s = 0; s < 64; s++) if (P.getPiece(Square(s)) != Piece::EMPTY) F.setPiece(Square(s), P.getPiece(Square(s)));
    F.setWhiteMove(P.isWhiteMove()); F.setCastleMask(P.getCastleMask()); F.setEpSquare(P.getEpSquare());
    F.setHalfMoveClock(P.getHalfMoveClock()); F.setFullMoveCounter(P.getFullMoveCounter());
    if (F.zobristHash() != P.zobristHash()) e << " zobrist(fresh)";
    if (F.pawnZobristHash() != P.pawnZobristHash()) e << " pawnZobrist(fresh)";
    if (F.kingZobristHash() != P.kingZobristHash()) e << " kingZobrist(fresh)";
    if (F.historyHash() != P.historyHash()) e << " historyHash(fresh)";
    if (F.bookHash() != P.bookHash()) e << " bookHash(fresh)";
    if (!(F == P)) e << " operator==(fresh)";
    return e.str();
}

static std::string cmpSame(const Position& A, const Position& B) {
    std::ostringstream e;
    if (!(A == B)) e << " operator==";
    for (int s = 0; s < 64; s++) if (A.getPiece(Square(s)) != B.getPiece(Square(s))) { e << " square " << s; break; }
    for (int pc = 1; pc < Piece::nPieceTypes; pc++) if (A.pieceTypeBB((Piece::Type)pc) != B.pieceTypeBB((Piece::Type)pc)) e << " bb" << pc;
    if (A.whiteBB() != B.whiteBB() || A.blackBB() != B.blackBB()) e << " colorBB";
    if (A.isWhiteMove() != B.isWhiteMove()) e << " side";
    if (A.getCastleMask() != B.getCastleMask()) e << " castle";
    if (A.getEpSquare() != B.getEpSquare()) e << " ep";
    if (A.getHalfMoveClock() != B.getHalfMoveClock()) e << " hmc";
    if (A.getFullMoveCounter() != B.getFullMoveCounter()) e << " fullmove";
    if (A.zobristHash() != B.zobristHash()) e << " zobrist";
    if (A.pawnZobristHash() != B.pawnZobristHash()) e << " pawnZobrist";
    if (A.materialId() != B.materialId()) e << " matId";
    if (A.wMtrl() != B.wMtrl() || A.bMtrl() != B.bMtrl() || A.wMtrlPawns() != B.wMtrlPawns() || A.bMtrlPawns() != B.bMtrlPawns()) e << " mtrl";
    if (A.wKingSq() != B.wKingSq() || A.bKingSq() != B.bKingSq()) e << " kingSq";
    Position::SerializeData da, db; A.serialize(da); B.serialize(db);
    if (memcmp(&da, &db, sizeof(da)) != 0) e << " serialize";
    return e.str();
}

struct Frame { Move m; UndoInfo ui; Position before; ref::Pos rbefore; };

static std::map<std::string, U64>* keyDict;

static void checkState(const Position& P, const ref::Pos& R, const std::string& hist) {
    rep.add("states");
    setCrumb(hist);
    // lock-step with refchess
    ref::Pos RP = toRef(P);
    bool epWant = R.ep >= 0 && ref::epPseudo(R);
    if (memcmp(RP.b, R.b, 64) != 0 || RP.wtm != R.wtm || RP.castle != R.castle || RP.hmc != R.hmc || RP.fullMove != R.fullMove
        || ((RP.ep >= 0) != epWant) || (epWant && RP.ep != R.ep))
        rep.viol("lockstep", hist + " engine " + TextIO::toFEN(P) + " ref " + ref::toFEN(R));
    std::string d = cmpFresh(P);
    if (!d.empty()) rep.viol("fresh-recompute", hist + " at " + TextIO::toFEN(P) + " differs:" + d);
}

static void checkRoundTrips(const Position& P, const ref::Pos& R, const std::string& hist) {
    // FEN
    std::string fen = TextIO::toFEN(P);
    Position fx(P); TextIO::fixupEPSquare(fx);
    Position back;
    if (!readFEN(fen, back)) rep.viol("fen-reject-own", hist + " " + fen);
    else {
        std::string d = cmpSame(back, fx);
        if (!d.empty()) rep.viol("fen-roundtrip", hist + " " + fen + " differs:" + d);
    }
    rep.add("fen_roundtrips");
    // equal under the rules => equal keys (after the e.p. fix-up the console mode applies)
    std::string key = ref::repKey(R);
    auto it = keyDict->find(key);
    if (it == keyDict->end()) { if (keyDict->size() < 400000) (*keyDict)[key] = fx.zobristHash(); }
    else { rep.add("rule_equal_pairs"); if (it->second != fx.zobristHash()) rep.viol("equal-positions-different-hash", hist + " " + fen); }
    // serialisation (field widths: hmc <= 255, full move <= 65535)
    if (P.getHalfMoveClock() <= 255 && P.getFullMoveCounter() <= 65535) {
        Position::SerializeData sd; P.serialize(sd);
        Position Q; Q.deSerialize(sd);
        std::string d = cmpSame(Q, P);
        if (!d.empty()) rep.viol("serialize-roundtrip", hist + " " + fen + " differs:" + d);
        std::string d2 = cmpFresh(Q);
        if (!d2.empty()) rep.viol("deserialize-state", hist + " " + fen + " differs:" + d2);
        rep.add("serialize_roundtrips");
        // the same into an object that already held another position (tools re-use one Position for many records)
        static thread_local Position reused;
        reused.deSerialize(sd);
        std::string d3 = cmpSame(reused, P);
        if (!d3.empty()) rep.viol("serialize-roundtrip-into-used-object", hist + " " + fen + " differs:" + d3);
        std::string d4 = cmpFresh(reused);
        if (!d4.empty()) rep.viol("deserialize-state-in-used-object", hist + " " + fen + " differs:" + d4);
        // and assignment / copy construction over a used object
        static thread_local Position assigned;
        assigned = P;
        std::string d5 = cmpSame(assigned, P);
        if (!d5.empty()) rep.viol("copy-into-used-object", hist + " " + fen + " differs:" + d5);
    }
}

static int runC02(uint64_t seed, long long nwalks) {
    Rng r(seed);
    std::map<std::string, U64> dict; keyDict = &dict;
    std::vector<ref::Pos> starts;
    for (auto& f : posgen::trickyFens()) { ref::Pos p; ref::parseFEN(f, p); starts.push_back(p); }
    std::vector<ref::Pos> storm;
    for (auto& f : posgen::stormFens()) { ref::Pos p; ref::parseFEN(f, p); storm.push_back(p); }
    for (long long w = 0; w < nwalks; w++) {
        ref::Pos R; posgen::Style st;
        int k = r.below(10);
        if (k < 3) { ref::parseFEN(ref::startFEN, R); st = r.chance(50) ? posgen::TACTICAL : posgen::UNIFORM; }
        else if (k < 5) { R = starts[r.below((int)starts.size())]; st = posgen::TACTICAL; }
        else if (k < 8) { R = storm[r.below((int)storm.size())]; st = posgen::STORM; }
        else { R = posgen::synthetic(r, r.below(posgen::T_NTEMPLATES)); st = posgen::TACTICAL; }
        // some walks start with a large half-move clock and prefer reversible moves, so that clocks far above 255
        // (the width of narrower undo/serialise fields) are reached by play and restored by take-backs
        if (r.chance(15)) { R.hmc = r.range(180, 420); R.ep = -1; st = posgen::QUIET; rep.add("walks_high_halfmove_clock"); }
        Position P;
        std::string startFen = ref::toFEN(R);
        if (!readFEN(startFen, P)) { rep.add("fen_rejected"); continue; }
        // the reader normalises the e.p. square; continue from what the engine accepted
        if (!ref::epLegal(R)) R.ep = -1;
        rep.add("walks");
        std::vector<Frame> stack;
        std::string hist = "start " + startFen + " moves";
        int maxPlies = r.range(20, 300);
        int maxQ[2] = {0, 0};
        checkState(P, R, hist);
        for (int step = 0; step < maxPlies; step++) {
            int act = r.below(100);
            if (act < 12 && !stack.empty()) {
                // take back k moves and compare with the saved copies
                int kk = 1 + r.below(std::min<int>(8, (int)stack.size()));
                while (kk--) {
                    Frame& f = stack.back();
                    P.unMakeMove(f.m, f.ui);
                    R = f.rbefore;
                    std::string d = cmpSame(P, f.before);
                    size_t cut = hist.rfind(' ');
                    if (!d.empty()) rep.viol("unmake", hist + " (undo last) differs:" + d);
                    hist.resize(cut);
                    stack.pop_back();
                    rep.add("takebacks");
                }
                checkState(P, R, hist);
                continue;
            }
            if (act < 20) {
                // null-move style edit exactly as Search::negaScout does it, then restore
                Position before(P);
                P.setWhiteMove(!P.isWhiteMove());
                const Square ep = P.getEpSquare(); P.setEpSquare(Square(-1));
                const int hmc = P.getHalfMoveClock(); P.setHalfMoveClock(0);
                { std::string d = cmpFresh(P); if (!d.empty()) rep.viol("null-edit-state", hist + " differs:" + d); }
                // make/unmake a move inside the null move when legal moves exist for the other side
                ref::Pos RN = R; RN.wtm = !RN.wtm; RN.ep = -1; RN.hmc = 0;
                if (!ref::otherInCheck(RN)) {
                    std::vector<ref::Mv> l; ref::genLegal(RN, l);
                    if (!l.empty()) { Move m = toEng(l[r.below((int)l.size())]); UndoInfo ui; Position b2(P); P.makeMove(m, ui); P.unMakeMove(m, ui);
                        std::string d = cmpSame(P, b2); if (!d.empty()) rep.viol("unmake-in-null", hist + " differs:" + d); }
                }
                P.setEpSquare(ep); P.setWhiteMove(!P.isWhiteMove()); P.setHalfMoveClock(hmc);
                std::string d = cmpSame(P, before);
                if (!d.empty()) rep.viol("null-edit-restore", hist + " differs:" + d);
                rep.add("null_edits");
                continue;
            }
            std::vector<ref::Mv> l; ref::genLegal(R, l);
            if (l.empty()) break;
            if (act < 30) {
                // makeMoveB/unMakeMoveB and makeSEEMove/unMakeSEEMove pairs must restore everything
                ref::Mv rm = l[r.below((int)l.size())];
                Move m = toEng(rm);
                Position before(P); UndoInfo ui;
                P.makeMoveB(m, ui); P.unMakeMoveB(m, ui);
                std::string d = cmpSame(P, before);
                if (!d.empty()) rep.viol("makeMoveB-pair", hist + " move " + ref::mvStr(rm) + " differs:" + d);
                P.makeSEEMove(m, ui); P.unMakeSEEMove(m, ui);
                d = cmpSame(P, before);
                if (!d.empty()) rep.viol("makeSEEMove-pair", hist + " move " + ref::mvStr(rm) + " differs:" + d);
                rep.add("b_see_pairs");
                continue;
            }
            ref::Mv rm = posgen::pickMove(r, R, l, st);
            Frame f; f.m = toEng(rm); f.before = P; f.rbefore = R;
            setCrumb(hist + " " + ref::mvStr(rm));
            P.makeMove(f.m, f.ui);
            R = ref::make(R, rm);
            stack.push_back(f);
            hist += " " + ref::mvStr(rm);
            rep.add("moves_made");
            checkState(P, R, hist);
            if (r.chance(25)) checkRoundTrips(P, R, hist);
            maxQ[0] = std::max(maxQ[0], R.count(ref::WQ)); maxQ[1] = std::max(maxQ[1], R.count(ref::BQ));
        }
        // unwind completely
        while (!stack.empty()) {
            Frame& f = stack.back();
            P.unMakeMove(f.m, f.ui);
            std::string d = cmpSame(P, f.before);
            if (!d.empty()) { rep.viol("unmake", hist + " (final unwind, " + std::to_string(stack.size()) + " left) differs:" + d); break; }
            stack.pop_back();
        }
        rep.stat["max_halfmove_clock"] = std::max<long long>(rep.stat["max_halfmove_clock"], R.hmc);
        int mq = std::max(maxQ[0], maxQ[1]);
        rep.stat["max_queens_one_side"] = std::max<long long>(rep.stat["max_queens_one_side"], mq);
        if (mq >= 6) rep.add("walks_with_6plus_queens");
        if (maxQ[1] >= 6) rep.add("walks_with_6plus_black_queens");
        rep.distinct.insert(fnv(hist));
        if (w % 211 == 3) rep.sample(hist.substr(0, 300));
    }
    rep.stat["rule_key_dict_size"] = (long long)dict.size();
    return 0;
}

// ---------------------------------------------------------------------------------------------
// C17 (move text)

static void checkMoveText(const ref::Pos& R) {
    Position P;
    if (!readFEN(ref::toFEN(R), P)) return;
    const std::string fen = TextIO::toFEN(P);
    std::vector<ref::Mv> legal; ref::genLegal(R, legal);
    if (legal.empty()) return;
    rep.add("positions");
    setCrumb("fen " + fen);
    std::map<std::string, ref::Mv> shortSeen;
    bool ambiguous = false;
    for (const ref::Mv& rm : legal) {
        Move m = toEng(rm);
        std::string s = TextIO::moveToString(P, m, false);
        std::string lg = TextIO::moveToString(P, m, true);
        std::string u = TextIO::moveToUCIString(m);
        rep.add("moves");
        if (u != ref::mvStr(rm)) rep.viol("uci-format", fen + " move " + ref::mvStr(rm) + " got " + u);
        Move mu = TextIO::uciStringToMove(u);
        if (!(mu == m)) rep.viol("uci-roundtrip", fen + " " + u);
        Position P2(P);
        Move ms = TextIO::stringToMove(P2, s);
        if (!(ms == m)) rep.viol("short-roundtrip", fen + " move " + ref::mvStr(rm) + " text " + s + " parsed " + TextIO::moveToUCIString(ms));
        Move ml = TextIO::stringToMove(P2, lg);
        if (!(ml == m)) rep.viol("long-roundtrip", fen + " move " + ref::mvStr(rm) + " text " + lg + " parsed " + TextIO::moveToUCIString(ml));
        if (!cmpSame(P2, P).empty()) rep.viol("stringToMove-modified-position", fen + " " + s);
        auto ins = shortSeen.insert(std::make_pair(s, rm));
        if (!ins.second) rep.viol("short-form-shared", fen + " text " + s + " moves " + ref::mvStr(rm) + " " + ref::mvStr(ins.first->second));
        ref::Pos N = ref::make(R, rm);
        bool chk = ref::inCheck(N); bool mate = chk && ref::isMate(N);
        char want = mate ? '#' : chk ? '+' : 0;
        for (const std::string& t : { s, lg }) {
            char last = t.empty() ? 0 : t.back();
            char got = (last == '#' || last == '+') ? last : 0;
            if (got != want) rep.viol("check-suffix", fen + " move " + ref::mvStr(rm) + " text " + t);
        }
        // disambiguation actually needed?
        if (s.size() >= 4 && ref::kindOf(R.b[rm.from]) != ref::K_P && !ref::isCastle(R, rm)) {
            for (const ref::Mv& o : legal) if (!(o == rm) && o.to == rm.to && R.b[o.from] == R.b[rm.from]) { ambiguous = true; }
        }
    }
    if (ambiguous) { rep.add("positions_needing_disambiguation"); rep.distinct.insert(fnv(fen)); }
    if (ambiguous && rep.stat["positions"] % 499 == 7) rep.sample(fen);
}

static int runC17m(uint64_t seed, long long ncases) {
    Rng r(seed);
    std::vector<ref::Pos> tricky;
    for (auto& f : posgen::trickyFens()) { ref::Pos p; ref::parseFEN(f, p); tricky.push_back(p); }
    long long done = 0;
    while (done < ncases) {
        int kind = r.below(10);
        if (kind < 4) {
            // several like pieces attacking one square: sparse board with 3-4 knights/rooks/queens/bishops of one colour
            ref::Pos p;
            for (int tries = 0; tries < 50; tries++) {
                p = ref::Pos();
                p.wtm = r.chance(50);
                int own = p.wtm ? 0 : 6;
                int wk = r.below(64), bk = r.below(64);
                if (wk == bk) continue;
                p.b[wk] = ref::WK; p.b[bk] = ref::BK;
                int kind2 = (const int[]){ ref::WQ, ref::WR, ref::WB, ref::WN }[r.below(4)] + own;
                int n = r.range(2, 5);
                for (int i = 0; i < n; i++) { int s = r.below(64); if (!p.b[s]) p.b[s] = kind2; }
                int extra = r.range(0, 6);
                for (int i = 0; i < extra; i++) { int s = r.below(64); if (!p.b[s]) p.b[s] = (int8_t)(r.chance(50) ? (r.range(ref::WQ, ref::WN)) : r.range(ref::BQ, ref::BN)); }
                // pawns about to promote with capture choices
                if (r.chance(40)) { int f = r.below(8); int s = ref::sq(f, p.wtm ? 6 : 1); if (!p.b[s]) p.b[s] = p.wtm ? ref::WP : ref::BP; }
                if (ref::plausible(p) && posgen::countsOk(p)) break;
            }
            if (!ref::plausible(p) || !posgen::countsOk(p)) continue;
            checkMoveText(p); done++;
        } else if (kind < 7) {
            ref::Pos start = r.chance(50) ? tricky[r.below((int)tricky.size())] : tricky[0];
            posgen::Game g = posgen::randomGame(r, start, r.range(10, 120), posgen::TACTICAL);
            for (size_t i = 0; i < g.pos.size() && done < ncases; i++) { if (!r.chance(30)) continue; checkMoveText(g.pos[i]); done++; }
        } else {
            checkMoveText(posgen::synthetic(r, r.below(posgen::T_NTEMPLATES))); done++;
        }
    }
    return 0;
}

int main(int argc, char** argv) {
    if (argc < 2) { fprintf(stderr, "usage\n"); return 2; }
    requireSelfTest();
    ComputerPlayer::initEngine();
    std::string mode = argv[1];
    int rc = 0;
    const char* hashFile = argc > 4 ? argv[4] : nullptr;
    if (mode == "fen") {
        for (int i = 2; i < argc; i++) { ref::Pos p; if (ref::parseFEN(argv[i], p)) { checkC01(p, "replay"); checkMoveText(p); } }
        hashFile = nullptr;
    } else {
        uint64_t seed = (uint64_t)argLL(argc, argv, 2, 1);
        long long n = argLL(argc, argv, 3, 1000);
        if (mode == "c01") rc = runC01(seed, n);
        else if (mode == "c02") rc = runC02(seed, n);
        else if (mode == "c17m") rc = runC17m(seed, n);
        else { fprintf(stderr, "unknown mode\n"); return 2; }
    }
    rep.finish(hashFile);
    return rc;
}
