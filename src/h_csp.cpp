// h_csp: the rank-constraint solver (CspSolver) against exhaustive enumeration / z3 (C20).
//   h_csp <seed> <nsystems> [hashfile]
#include "cspsolver.hpp"
#include <z3.h>
#include <cstdio>
#include <cstdlib>
#include <cstring>
#include <string>
#include <sstream>
#include <vector>
#include <map>
#include <unordered_set>
#include <functional>
#include <csignal>
#include <unistd.h>

extern "C" void __sanitizer_set_death_callback(void (*)(void)) __attribute__((weak));
static char crumb[1 << 14];
static void dumpCrumb() { if (*crumb) { (void)!write(2, "\nCRUMB ", 7); (void)!write(2, crumb, strlen(crumb)); (void)!write(2, "\n", 1); } }
static void onSig(int s) { dumpCrumb(); signal(s, SIG_DFL); raise(s); }

struct Rng { uint64_t s; uint64_t next() { s ^= s << 13; s ^= s >> 7; s ^= s << 17; return s * 0x2545F4914F6CDD1Dull; }
             int below(int n) { return n <= 1 ? 0 : (int)(next() % (uint64_t)n); } int range(int a, int b) { return a + below(b - a + 1); } bool chance(int p) { return below(100) < p; } };

struct Con { int v1, v2, c; int kind; };   // kind 0: v1 <= v2 + c, 1: v1 >= v2 + c, 2: v1 == v2 + c
struct Sys {
    int nv = 0;
    std::vector<int> lo, hi, par, pref;   // par: 0 none, 1 even, 2 odd
    std::vector<std::pair<int, std::pair<int, int>>> tighten; // (var, (isMax, value)) in order of application
    std::vector<Con> cons;
    std::string str() const {
        std::ostringstream o;
        for (int i = 0; i < nv; i++) o << "v" << i << ":[" << lo[i] << "," << hi[i] << "]" << (par[i] == 1 ? "even" : par[i] == 2 ? "odd" : "") << " pref" << pref[i] << "; ";
        for (auto& t : tighten) o << "v" << t.first << (t.second.first ? "<=" : ">=") << t.second.second << "; ";
        for (auto& c : cons) o << "v" << c.v1 << (c.kind == 0 ? "<=" : c.kind == 1 ? ">=" : "==") << "v" << c.v2 << (c.c >= 0 ? "+" : "") << c.c << "; ";
        return o.str();
    }
};

static std::map<std::string, long long> stat;
static int nViol = 0;
static void viol(const std::string& kind, const std::string& w) { nViol++; if (nViol <= 20) { printf("VIOL %s | %s\n", kind.c_str(), w.c_str()); fflush(stdout); } }

static bool okAssign(const Sys& s, const std::vector<int>& v, const std::vector<int>& elo, const std::vector<int>& ehi) {
    if ((int)v.size() != s.nv) return false;
    for (int i = 0; i < s.nv; i++) {
        if (v[i] < elo[i] || v[i] > ehi[i]) return false;
        if (s.par[i] == 1 && (v[i] & 1)) return false;
        if (s.par[i] == 2 && !(v[i] & 1)) return false;
    }
    for (auto& c : s.cons) { int a = v[c.v1], b = v[c.v2] + c.c; if (c.kind == 0 ? a > b : c.kind == 1 ? a < b : a != b) return false; }
    return true;
}

// exhaustive enumeration with early constraint checks; returns 1 sat, 0 unsat, -1 budget exceeded
static int enumerate(const Sys& s, const std::vector<int>& elo, const std::vector<int>& ehi, long long budget) {
    std::vector<int> v(s.nv);
    std::vector<std::vector<int>> consAt(s.nv);     // constraints decidable once var i (the larger index) is assigned
    for (size_t k = 0; k < s.cons.size(); k++) consAt[std::max(s.cons[k].v1, s.cons[k].v2)].push_back((int)k);
    long long nodes = 0; bool over = false;
    std::function<bool(int)> rec = [&](int i) -> bool {
        if (i == s.nv) return true;
        for (int x = elo[i]; x <= ehi[i]; x++) {
            if (s.par[i] == 1 && (x & 1)) continue;
            if (s.par[i] == 2 && !(x & 1)) continue;
            if (++nodes > budget) { over = true; return false; }
            v[i] = x;
            bool ok = true;
            for (int k : consAt[i]) { const Con& c = s.cons[k]; int a = v[c.v1], b = v[c.v2] + c.c; if (c.kind == 0 ? a > b : c.kind == 1 ? a < b : a != b) { ok = false; break; } }
            if (ok && rec(i + 1)) return true;
            if (over) return false;
        }
        return false;
    };
    bool r = rec(0);
    return over ? -1 : (r ? 1 : 0);
}

static int z3Decide(const Sys& s, const std::vector<int>& elo, const std::vector<int>& ehi) {
    Z3_config cfg = Z3_mk_config();
    Z3_context ctx = Z3_mk_context(cfg);
    Z3_del_config(cfg);
    Z3_solver sol = Z3_mk_solver(ctx); Z3_solver_inc_ref(ctx, sol);
    Z3_sort is = Z3_mk_int_sort(ctx);
    std::vector<Z3_ast> x(s.nv);
    auto num = [&](int n) { return Z3_mk_int(ctx, n, is); };
    for (int i = 0; i < s.nv; i++) {
        x[i] = Z3_mk_const(ctx, Z3_mk_int_symbol(ctx, i), is);
        Z3_solver_assert(ctx, sol, Z3_mk_ge(ctx, x[i], num(elo[i])));
        Z3_solver_assert(ctx, sol, Z3_mk_le(ctx, x[i], num(ehi[i])));
        if (s.par[i]) {
            Z3_ast k = Z3_mk_const(ctx, Z3_mk_int_symbol(ctx, 1000 + i), is);
            Z3_ast two[2] = { num(2), k };
            Z3_ast prod = Z3_mk_mul(ctx, 2, two);
            Z3_ast rhs = prod;
            if (s.par[i] == 2) { Z3_ast a[2] = { prod, num(1) }; rhs = Z3_mk_add(ctx, 2, a); }
            Z3_solver_assert(ctx, sol, Z3_mk_eq(ctx, x[i], rhs));
        }
    }
    for (auto& c : s.cons) {
        Z3_ast a[2] = { x[c.v2], num(c.c) };
        Z3_ast rhs = Z3_mk_add(ctx, 2, a);
        Z3_ast f = c.kind == 0 ? Z3_mk_le(ctx, x[c.v1], rhs) : c.kind == 1 ? Z3_mk_ge(ctx, x[c.v1], rhs) : Z3_mk_eq(ctx, x[c.v1], rhs);
        Z3_solver_assert(ctx, sol, f);
    }
    Z3_lbool r = Z3_solver_check(ctx, sol);
    Z3_solver_dec_ref(ctx, sol);
    Z3_del_context(ctx);
    return r == Z3_L_TRUE ? 1 : r == Z3_L_FALSE ? 0 : -1;
}

static Sys genRandom(Rng& r) {
    Sys s;
    s.nv = r.range(1, 10);
    int maxW = s.nv <= 2 ? 64 : s.nv <= 4 ? 24 : s.nv <= 6 ? 12 : 8;
    if (r.chance(10)) maxW = 64;       // sometimes wide domains; the product is capped below
    for (int i = 0; i < s.nv; i++) {
        int w = r.range(1, maxW);
        int a = -16 + r.below(64 - w + 1);
        if (r.chance(25)) a = r.chance(50) ? -16 : 48 - w;   // touch the window edges
        s.lo.push_back(a); s.hi.push_back(a + w - 1);
        s.par.push_back(r.chance(50) ? 0 : r.range(1, 2));
        s.pref.push_back(r.below(4));
        if (r.chance(20)) s.tighten.push_back({i, {0, -16 + r.below(64)}});
        if (r.chance(20)) s.tighten.push_back({i, {1, -16 + r.below(64)}});
    }
    // keep the domain product <= 4e6 (the quantifier: systems small enough for exhaustive enumeration)
    for (;;) {
        double prod = 1; int widest = 0;
        for (int i = 0; i < s.nv; i++) { prod *= (s.hi[i] - s.lo[i] + 1); if (s.hi[i] - s.lo[i] > s.hi[widest] - s.lo[widest]) widest = i; }
        if (prod <= 4e6) break;
        s.hi[widest] = s.lo[widest] + (s.hi[widest] - s.lo[widest]) / 2;
    }
    if (r.chance(3)) { int i = r.below(s.nv); s.lo[i] = 5; s.hi[i] = 4; }   // empty initial domain
    int nc = r.chance(10) ? 0 : r.range(0, 25);
    for (int k = 0; k < nc; k++) {
        Con c; c.v1 = r.below(s.nv); c.v2 = r.below(s.nv);
        c.c = r.chance(70) ? r.range(-8, 8) : r.range(-70, 70);
        c.kind = (const int[]){0, 0, 1, 1, 2}[r.below(5)];
        s.cons.push_back(c);
    }
    return s;
}

static Sys genExtremeOffsets(Rng& r) {
    // few variables spanning (almost) the whole window and offsets around the largest meaningful difference (63)
    Sys s;
    s.nv = r.range(2, 3);
    for (int i = 0; i < s.nv; i++) {
        int lo = -16 + (r.chance(60) ? 0 : r.range(0, 3)), hi = 47 - (r.chance(60) ? 0 : r.range(0, 3));
        s.lo.push_back(lo); s.hi.push_back(hi); s.par.push_back(r.chance(70) ? 0 : r.range(1, 2)); s.pref.push_back(r.below(4));
    }
    int nc = r.range(1, 4);
    for (int k = 0; k < nc; k++) {
        Con c; c.v1 = r.below(s.nv); c.v2 = r.below(s.nv);
        int mag = (const int[]){60, 61, 62, 63, 63, 64, 64, 65, 70}[r.below(9)];
        c.c = r.chance(50) ? mag : -mag; c.kind = r.below(3);
        s.cons.push_back(c);
    }
    return s;
}

static Sys genStructured(Rng& r) {
    // shaped like extproofkernel.cpp: ranks of captures along pawn chains
    Sys s;
    s.nv = r.range(2, 10);
    for (int i = 0; i < s.nv; i++) {
        int lo = r.chance(70) ? 1 : r.range(0, 3), hi = r.chance(70) ? 6 : r.range(4, 7);
        s.lo.push_back(lo); s.hi.push_back(hi);
        s.par.push_back(r.chance(70) ? 0 : r.range(1, 2));      // bishop colour
        s.pref.push_back(r.below(4));
        if (r.chance(15)) s.tighten.push_back({i, {0, r.chance(50) ? 1 : 2}});
        if (r.chance(15)) s.tighten.push_back({i, {1, r.chance(50) ? 6 : 5}});
    }
    for (int i = 0; i + 1 < s.nv; i++) {
        int t = r.below(6);
        if (t == 0) s.cons.push_back({i + 1, i, 1, 2});          // next = prev + 1
        else if (t == 1) s.cons.push_back({i + 1, i, -1, 2});
        else if (t == 2) s.cons.push_back({i + 1, i, 1, 1});     // next >= prev + 1
        else if (t == 3) s.cons.push_back({i + 1, i, -1, 0});    // next <= prev - 1
        else if (t == 4) s.cons.push_back({i + 1, i, 0, r.below(2)});
    }
    int extra = r.range(0, 6);
    for (int k = 0; k < extra; k++) s.cons.push_back({r.below(s.nv), r.below(s.nv), r.range(-2, 2), r.below(3)});
    if (r.chance(10)) { // cyclic equalities
        for (int i = 0; i < s.nv; i++) s.cons.push_back({i, (i + 1) % s.nv, i + 1 == s.nv ? -(s.nv - 1) * (r.chance(70) ? 1 : 0) : (r.chance(70) ? 1 : 0), 2});
    }
    return s;
}

static Sys genMany(Rng& r) {
    // up to the bit-set limit of 192 stored constraints (an equality stores two)
    Sys s = genRandom(r);
    s.cons.clear();
    int stored = 0;
    while (stored < 192) {
        Con c; c.v1 = r.below(s.nv); c.v2 = r.below(s.nv); c.c = r.range(-3, 12); c.kind = r.below(3);
        int cost = c.kind == 2 ? 2 : 1;
        if (stored + cost > 192) { c.kind = 0; cost = 1; }
        s.cons.push_back(c); stored += cost;
    }
    return s;
}

int main(int argc, char** argv) {
    if (__sanitizer_set_death_callback) __sanitizer_set_death_callback(dumpCrumb);
    signal(SIGABRT, onSig); signal(SIGSEGV, onSig);
    uint64_t seed = argc > 1 ? strtoull(argv[1], 0, 10) : 1;
    long long n = argc > 2 ? atoll(argv[2]) : 1000;
    Rng r{seed * 0x9E3779B97F4A7C15ull + 99}; for (int i = 0; i < 5; i++) r.next();
    std::unordered_set<uint64_t> distinct;
    int samples = 0;
    for (long long it = 0; it < n; it++) {
        int g = r.below(100);
        Sys s = g < 55 ? genRandom(r) : g < 60 ? genExtremeOffsets(r) : g < 97 ? genStructured(r) : genMany(r);
        stat[g < 55 ? "gen_random" : g < 60 ? "gen_extreme_offsets" : g < 97 ? "gen_structured" : "gen_192_constraints"]++;
        std::string desc = s.str();
        snprintf(crumb, sizeof(crumb), "%s", desc.c_str());
        // effective ranges after the tightenings (all inside the window, the solver's supported limits)
        std::vector<int> elo = s.lo, ehi = s.hi;
        std::ostringstream log;
        CspSolver csp(log, true);
        for (int i = 0; i < s.nv; i++) {
            csp.addVariable((CspSolver::PrefVal)s.pref[i], s.lo[i], s.hi[i]);
            if (s.par[i] == 1) csp.makeEven(i); else if (s.par[i] == 2) csp.makeOdd(i);
        }
        for (auto& t : s.tighten) {
            if (t.second.first) { csp.addMaxVal(t.first, t.second.second); ehi[t.first] = std::min(ehi[t.first], t.second.second); }
            else { csp.addMinVal(t.first, t.second.second); elo[t.first] = std::max(elo[t.first], t.second.second); }
        }
        for (auto& c : s.cons) {
            if (c.kind == 2) csp.addEq(c.v1, c.v2, c.c);
            else csp.addIneq(c.v1, c.kind == 1 ? CspSolver::GE : CspSolver::LE, c.v2, c.c);
        }
        std::vector<int> vals;
        bool got = csp.solve(vals);
        int want = enumerate(s, elo, ehi, 6000000);
        if (want < 0) { want = z3Decide(s, elo, ehi); stat["decided_by_z3"]++; if (want < 0) { stat["undecided"]++; continue; } }
        else stat["decided_by_enumeration"]++;
        stat["systems"]++;
        if (want) stat["satisfiable"]++;
        if (s.cons.empty()) stat["zero_constraints"]++;
        if (got != (want == 1)) viol("satisfiability", std::string("solver says ") + (got ? "solvable" : "unsolvable") + ", oracle says " + (want ? "solvable" : "unsolvable") + " : " + desc);
        else if (got && !okAssign(s, vals, elo, ehi)) {
            std::string vs; for (int x : vals) vs += std::to_string(x) + " ";
            viol("returned-assignment-violates-constraints", "values " + vs + ": " + desc);
        }
        // incremental use of the same solver object: more constraints (and tightenings) between the existing variables, solve again
        int nEngineConstr = 0; for (auto& c0 : s.cons) nEngineConstr += c0.kind == 2 ? 2 : 1;      // an equality is stored as two inequalities
        if (s.nv >= 2 && r.below(100) < 25 && nEngineConstr + 6 <= 192) {
            Sys s2 = s;
            int extra = 1 + r.below(3);
            for (int k = 0; k < extra; k++) {
                if (r.below(100) < 25) {
                    int v = r.below(s.nv); bool isMax = r.below(2); int val = elo[v] + r.below(std::max(1, ehi[v] - elo[v] + 1));
                    if (elo[v] > ehi[v]) continue;
                    if (isMax) { csp.addMaxVal(v, val); ehi[v] = std::min(ehi[v], val); } else { csp.addMinVal(v, val); elo[v] = std::max(elo[v], val); }
                    s2.tighten.push_back({v, {isMax ? 1 : 0, val}});
                } else {
                    Con c; c.v1 = r.below(s.nv); do c.v2 = r.below(s.nv); while (c.v2 == c.v1); c.c = r.below(9) - 4; c.kind = r.below(3);
                    if (c.kind == 2) csp.addEq(c.v1, c.v2, c.c); else csp.addIneq(c.v1, c.kind == 1 ? CspSolver::GE : CspSolver::LE, c.v2, c.c);
                    s2.cons.push_back(c);
                }
            }
            if (s2.cons.size() <= 192) {
                std::string desc2 = s2.str() + " [second solve() on the same object after adding to: " + desc.substr(0, 300) + "]";
                snprintf(crumb, sizeof(crumb), "%s", desc2.c_str());
                std::vector<int> vals2;
                bool got2 = csp.solve(vals2);
                int want2 = enumerate(s2, elo, ehi, 6000000);
                if (want2 < 0) want2 = z3Decide(s2, elo, ehi);
                if (want2 >= 0) {
                    stat["incremental_second_solves"]++;
                    if (got2 != (want2 == 1)) viol("satisfiability", std::string("solver says ") + (got2 ? "solvable" : "unsolvable") + ", oracle says " + (want2 ? "solvable" : "unsolvable") + " : " + desc2);
                    else if (got2 && !okAssign(s2, vals2, elo, ehi)) { std::string vs; for (int x : vals2) vs += std::to_string(x) + " "; viol("returned-assignment-violates-constraints", "values " + vs + ": " + desc2); }
                }
            }
        }
        uint64_t h = 1469598103934665603ull; for (unsigned char c : desc) { h ^= c; h *= 1099511628211ull; }
        if (!s.cons.empty()) distinct.insert(h);
        if (samples < 5 && it % 1013 == 7) { samples++; printf("SAMPLE %s => %s\n", desc.c_str(), want ? "solvable" : "unsolvable"); }
    }
    stat["violations"] = nViol;
    stat["distinct_local"] = (long long)distinct.size();
    for (auto& kv : stat) printf("STAT %s %lld\n", kv.first.c_str(), kv.second);
    if (argc > 3) { FILE* f = fopen(argv[3], "wb"); if (f) { for (uint64_t h : distinct) fwrite(&h, 8, 1, f); fclose(f); } }
    return 0;
}
