// h_cos: the whole engine (UCIProtocol::main: protocol thread, engine thread, helper threads) run in-process
// under the cooperative scheduler with a virtual clock, fed by a command script (C10, C06, scheduled part of C05).
//   h_cos <scriptfile> seed=N [strategy=random|pct] [pct=D] [spurious=P] [unlock=1] [nsPerNode=N] [maxsteps=N]
// Script lines:  "<wait> <n> | <command>"   wait: now | steps | best | ms | tb (n-th line containing 'tbhits')
// Output (stdout): IN/OUT/EV/LIM/POLL/WAKE lines with scheduler step, virtual time (us) and thread id; RESULT line.
#include "cosched.hpp"
#include "uciprotocol.hpp"
#include "computerPlayer.hpp"
#include "verifhook.hpp"
#include "position.hpp"
#include "evaluate.hpp"
#include "textio.hpp"
#include <iostream>
#include <fstream>
#include <sstream>
#include <streambuf>
#include <vector>
#include <string>
#include <cstring>
#include <unistd.h>
#include <type_traits>

struct Item { std::string wait; long n; std::string cmd; };
static std::vector<Item> script; static size_t nextItem = 0;
static std::string curLine;
static int nBest = 0, nTb = 0;
static FILE* gLog;
static int64_t nsPerNode = 10000;      // 100 nodes per virtual millisecond
static int64_t pollCount = 0;
static long evalCheckEvery = 0; static long evalCount = 0, evalChecked = 0, evalBad = 0;

static void logLine(const char* tag, const std::string& text) {
    fprintf(gLog, "%s %lld %lld %d %s\n", tag, (long long)cosched::stepCount(), (long long)(cosched::nowNs() / 1000), cosched::threadId(), text.c_str());
}

struct OutBuf : std::streambuf {
    int overflow(int c) override {
        if (c == '\n') {
            if (curLine.compare(0, 8, "bestmove") == 0) nBest++;
            if (curLine.find(" tbhits ") != std::string::npos) nTb++;
            logLine("OUT", curLine);
            curLine.clear();
        } else curLine += (char)c;
        return c;
    }
};

struct InBuf : std::streambuf {
    std::string buf;
    int underflow() override {
        if (nextItem >= script.size()) { logLine("IN", "<EOF>"); return traits_type::eof(); }
        Item it = script[nextItem++];
        if (it.wait == "steps") cosched::waitSteps(it.n);
        else if (it.wait == "best") { int want = (int)it.n; cosched::waitPred([want] { return nBest >= want; }); }
        else if (it.wait == "bestb") { // bounded: give up after 20000 scheduler steps (an infinite search that nobody stops)
            int want = (int)it.n; int64_t lim = cosched::stepCount() + 20000; cosched::waitPred([want, lim] { return nBest >= want || cosched::stepCount() >= lim; }); }
        else if (it.wait == "tb") { int want = (int)it.n; int64_t dl = cosched::nowNs() + 20000000000LL; cosched::waitPred([want, dl] { return nTb >= want || cosched::nowNs() > dl; }); }
        else if (it.wait == "ms") cosched::sleepNs(it.n * 1000000LL);
        logLine("IN", it.cmd);
        buf = it.cmd + "\n";
        setg(&buf[0], &buf[0], &buf[0] + buf.size());
        return traits_type::to_int_type(buf[0]);
    }
};

// hooks -----------------------------------------------------------------------------------------------
static int64_t hClockMs() { return cosched::nowNs() / 1000000; }
static double hClockS() { return cosched::nowNs() * 1e-9; }
static long yieldEvery = 64; static thread_local long tickCount = 0;
// a pre-emption point every 'yieldEvery' searched nodes: real threads can be pre-empted anywhere, and without it a
// computing helper would reach a scheduling point only at its stop test every 1000 nodes
// virtual time advances with the nodes of the main search thread only (thread 0 runs EngineMainThread::doSearch):
// real helper threads run in parallel with it, they do not make its clock run faster
// ... while the main thread is in a timed wait (ponder wait loop, MaxNPS sleep) the nodes of whichever helper is running
// keep the clock going, otherwise a sleeping main thread could never wake up. Untimed blocking (mutex, acknowledgement
// waits) takes no virtual time: under a serialising scheduler its length is an artefact of the schedule, not of the engine
static void hTick() { if (cosched::threadId() == 0 || cosched::threadBlocked(0)) cosched::tick(nsPerNode); if (yieldEvery > 0 && ++tickCount >= yieldEvery) { tickCount = 0; cosched::yield(); } }
static void hLimit(int64_t minT, int64_t maxT, int early, int64_t tStart) {
    char b[160]; snprintf(b, sizeof(b), "%lld %lld %d %lld", (long long)minT, (long long)maxT, early, (long long)tStart); logLine("LIM", b);
}
static void hStopTest(int threadNo) { if (threadNo == 0) { pollCount++; logLine("POLL", "0"); } }
static void hEvent(int kind, int64_t a, int64_t b, int64_t c) {
    char buf[160]; snprintf(buf, sizeof(buf), "%d %lld %lld %lld", kind, (long long)a, (long long)b, (long long)c); logLine("EV", buf);
}
static void hEval(const Position& pos, int score, int contempt) {
    evalCount++;
    if (evalCheckEvery <= 0 || (evalCount % evalCheckEvery) != 0) return;
    // recompute on a copy with a brand-new evaluator and fresh tables (the search's incremental state is not touched)
    // per-thread tables, emptied before every use (allocating new ones each time costs ~0.5 ms)
    static thread_local std::unique_ptr<Evaluate::EvalHashTables> et;
    if (!et) et = Evaluate::getEvalHashTables();
    for (auto& e : et->evalHash) e = std::remove_reference<decltype(e)>::type();
    for (auto& m : et->materialHash) m = std::remove_reference<decltype(m)>::type();
    Evaluate e(*et);
    Position q(pos);
    e.connectPosition(q);
    e.setWhiteContempt(contempt);
    VerifHook::hooks().eval = nullptr;          // the recomputation itself must not recurse into the hook
    int fresh = e.evalPos();
    VerifHook::hooks().eval = hEval;
    evalChecked++;
    if (fresh != score) { evalBad++; logLine("EVALDIFF", TextIO::toFEN(pos) + " contempt " + std::to_string(contempt) + " search " + std::to_string(score) + " fresh " + std::to_string(fresh)); }
}

int main(int argc, char** argv) {
    if (argc < 2) return 2;
    cosched::Options o;
    o.maxSteps = 30000000;
    for (int i = 2; i < argc; i++) {
        std::string a = argv[i]; size_t eq = a.find('='); if (eq == std::string::npos) continue;
        std::string k = a.substr(0, eq), v = a.substr(eq + 1);
        if (k == "seed") o.seed = std::stoull(v);
        else if (k == "strategy") o.strategy = v == "pct" ? cosched::PCT : cosched::RANDOM;
        else if (k == "pct") o.pctDepth = std::stoi(v);
        else if (k == "horizon") o.pctHorizon = std::stoll(v);
        else if (k == "spurious") o.spuriousPermille = std::stoi(v);
        else if (k == "unlock") o.switchOnUnlock = v == "1";
        else if (k == "nsPerNode") nsPerNode = std::stoll(v);
        else if (k == "maxsteps") o.maxSteps = std::stoll(v);
        else if (k == "evalcheck") evalCheckEvery = std::stol(v);
        else if (k == "yield") yieldEvery = std::stol(v);
    }
    {
        std::ifstream is(argv[1]); std::string line;
        while (std::getline(is, line)) {
            size_t bar = line.find('|'); if (bar == std::string::npos) continue;
            std::istringstream hs(line.substr(0, bar)); Item it; it.n = 0; hs >> it.wait >> it.n;
            it.cmd = line.substr(bar + 1); while (!it.cmd.empty() && it.cmd[0] == ' ') it.cmd.erase(0, 1);
            script.push_back(it);
        }
    }
    gLog = fdopen(dup(1), "w");
    setvbuf(gLog, nullptr, _IOFBF, 1 << 20);
    ComputerPlayer::initEngine();
    OutBuf ob; InBuf ib;
    std::streambuf* oldOut = std::cout.rdbuf(&ob); std::streambuf* oldIn = std::cin.rdbuf(&ib);
    VerifHook::Hooks& h = VerifHook::hooks();
    cosched::setWakeHandler([]() { if (cosched::threadId() == 0) logLine("WAKE", "0"); });   // end of a MaxNPS throttle sleep inside the stop test
    h.clockMillis = hClockMs; h.clockSeconds = hClockS; h.nodeTick = hTick; h.timeLimit = hLimit; h.stopTest = hStopTest; h.event = hEvent;
    if (evalCheckEvery > 0) h.eval = hEval;
    cosched::setDeadlockHandler([](const char* states) { fprintf(gLog, "RESULT deadlock %s\n", states); fflush(gLog); });
    cosched::enable(o);
    UCIProtocol::main(false);
    cosched::disable();
    std::cout.rdbuf(oldOut); std::cin.rdbuf(oldIn);
    fprintf(gLog, "RESULT ok steps %lld events %lld switches %lld spurious %lld threads %d schedhash %016llx polls %lld vtime_ms %lld evals %ld evalchecked %ld evalbad %ld\n",
            (long long)cosched::stepCount(), (long long)cosched::eventCount(), (long long)cosched::switchCount(), (long long)cosched::spuriousCount(),
            cosched::threadCount(), (unsigned long long)cosched::scheduleHash(), (long long)pollCount, (long long)(cosched::nowNs() / 1000000), evalCount, evalChecked, evalBad);
    fflush(gLog);
    _exit(0);   // static destructors of the engine run fine, but nothing more is to be observed
}
