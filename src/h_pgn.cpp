// h_pgn: PGN round trip and garbage-input monitors for C17.
//   h_pgn pgn      <seed> <ntrees>  [hashfile]   random game trees -> PGN text -> PgnReader -> node by node comparison
//   h_pgn pgn-neg  <seed> <ntrees>               oracle sensitivity: the expected tree is damaged on purpose after
//                                                writing; every damage must be noticed by the comparison
//   h_pgn garbage  <seed> <ninputs> [hashfile]   mutated / random byte strings (<= 4 KB) into every text entry point
//   h_pgn one <fen|move|uci|pgn|num|all> <escaped-input> [seed]   replay one garbage input (escapes \\ \n \r \t \xHH as in
//                                                the CRUMB/VIOL text; move text is tried in every pool position of that seed)
//   h_pgn show <seed> <ntrees>                   print the PGN streams the pgn mode would produce (debug aid)
//   h_pgn selftest-hang                          spins; the watchdog must answer with "VIOL hang | <crumb>" and exit code 1
// A SIGALRM watchdog (120 s per 128 garbage inputs / per PGN stream) turns a hang into "VIOL hang | <crumb>", exit 1.
//
// The expected tree is the harness' own plain structure built with refchess only; move text is produced by an
// independent SAN writer (standard SAN, long algebraic, "0-0" spellings), never by the engine, except in route (a)
// where the repository's own writer GameTree::getGameTreeString is the producer.
#include "hcommon.hpp"
#include "vposgen.hpp"
#include "gametree.hpp"
#include "util.hpp"
#include <algorithm>
#include <iostream>
#include <memory>
#include <sstream>
#include <climits>
#include <ctime>

using namespace hc;
using posgen::Rng;

static Report rep;
static bool gCountWriterStats = true;   // off while the garbage mode builds its seed corpus

// ---------------------------------------------------------------------------------------------
// small helpers

static std::string esc(const std::string& s) {
    static const char* hex = "0123456789abcdef";
    std::string o;
    o.reserve(s.size() + 16);
    for (unsigned char c : s) {
        if (c == '\\') o += "\\\\";
        else if (c == '\n') o += "\\n";
        else if (c == '\r') o += "\\r";
        else if (c == '\t') o += "\\t";
        else if (c >= 0x20 && c < 0x7f) o += (char)c;
        else { o += "\\x"; o += hex[c >> 4]; o += hex[c & 15]; }
    }
    return o;
}

static int hexVal(char c) { if (c >= '0' && c <= '9') return c - '0'; if (c >= 'a' && c <= 'f') return c - 'a' + 10; if (c >= 'A' && c <= 'F') return c - 'A' + 10; return -1; }

static bool unesc(const std::string& s, std::string& o) {
    o.clear();
    for (size_t i = 0; i < s.size(); i++) {
        if (s[i] != '\\') { o += s[i]; continue; }
        if (++i >= s.size()) return false;
        switch (s[i]) {
        case '\\': o += '\\'; break;
        case 'n': o += '\n'; break;
        case 'r': o += '\r'; break;
        case 't': o += '\t'; break;
        case 'x': { if (i + 2 >= s.size()) return false;
                    int a = hexVal(s[i + 1]), b = hexVal(s[i + 2]); if (a < 0 || b < 0) return false; o += (char)(a * 16 + b); i += 2; break; }
        default: return false;
        }
    }
    return true;
}

struct NullBuf : std::streambuf {
    int overflow(int c) override { return c == EOF ? 0 : c; }
    std::streamsize xsputn(const char*, std::streamsize n) override { return n; }
};

static void onAlarm(int) {
    static const char a[] = "VIOL hang | ";
    (void)!write(1, a, sizeof(a) - 1);
    const char* b = crumbBuf();
    (void)!write(1, b, strlen(b));
    (void)!write(1, "\n", 1);
    dumpCrumb();
    _exit(1);
}

static const int WATCHDOG_S = 120;

// UBSan reports (halt_on_error) do not pass through the ASan death callback that hcommon installs: libubsan calls
// this hook after printing a report, so the offending input is named for UBSan findings as well.
// (__ubsan_on_report is provided by hcommon.hpp)

// ---------------------------------------------------------------------------------------------
// independent move text

enum SanStyle { SAN_STD = 0, SAN_LONG = 1, SAN_ZEROS = 2 };

static const char kindLetter[] = { 'K', 'Q', 'R', 'B', 'N', 'P' };

static std::string sanOf(const ref::Pos& p, const ref::Mv& m, int style, bool checkSuffix) {
    std::string s;
    int pc = p.b[m.from];
    int k = ref::kindOf(pc);
    if (ref::isCastle(p, m)) {
        bool kingSide = ref::fileOf(m.to) == 6;
        if (style == SAN_ZEROS) s = kingSide ? "0-0" : "0-0-0"; else s = kingSide ? "O-O" : "O-O-O";
    } else {
        bool cap = ref::isCapture(p, m);
        std::string dst = ref::sqName(m.to);
        if (style == SAN_LONG) {
            if (k != ref::K_P) s += kindLetter[k];
            s += ref::sqName(m.from);
            s += cap ? 'x' : '-';
            s += dst;
        } else if (k == ref::K_P) {
            if (cap) { s += (char)('a' + ref::fileOf(m.from)); s += 'x'; }
            s += dst;
        } else {
            s += kindLetter[k];
            std::vector<ref::Mv> legal; ref::genLegal(p, legal);
            bool other = false, sameFile = false, sameRank = false;
            for (const ref::Mv& o : legal) {
                if (o.from == m.from || o.to != m.to || p.b[o.from] != pc) continue;
                other = true;
                if (ref::fileOf(o.from) == ref::fileOf(m.from)) sameFile = true;
                if (ref::rankOf(o.from) == ref::rankOf(m.from)) sameRank = true;
            }
            if (other) {
                if (!sameFile) s += (char)('a' + ref::fileOf(m.from));
                else if (!sameRank) s += (char)('1' + ref::rankOf(m.from));
                else s += ref::sqName(m.from);
            }
            if (cap) s += 'x';
            s += dst;
        }
        if (m.promo) { s += '='; s += kindLetter[ref::kindOf(m.promo)]; }
    }
    if (checkSuffix) {
        ref::Pos n = ref::make(p, m);
        if (ref::inCheck(n)) s += ref::isMate(n) ? '#' : '+';
    }
    return s;
}

// ---------------------------------------------------------------------------------------------
// expected tree (plain data, refchess types only)

struct XNode {
    ref::Mv mv;
    int nag = 0;
    std::string pre, post;
    int depth = 0;              // variation nesting level (0 = main line)
    bool canPre = false;        // a comment before this move is representable in PGN
    std::vector<std::unique_ptr<XNode>> kids;   // kids[0] continues the line, kids[1..] are variations
    XNode* add(const ref::Mv& m, int d) { kids.emplace_back(new XNode); kids.back()->mv = m; kids.back()->depth = d; return kids.back().get(); }
};

struct XGame {
    std::vector<std::pair<std::string, std::string>> tags;   // as written, without SetUp/FEN
    bool setup = false;
    bool writeSetUpTag = true;
    ref::Pos start;
    XNode root;
    std::string term = "*";
    // bookkeeping
    long nodes = 0, variations = 0, comments = 0, nags = 0, dups = 0; int maxDepth = 0;
};

struct GenCfg {
    bool small = false;     // corpus material for the garbage mode: short games
};

static const char* const strNames[7] = { "Event", "Site", "Date", "Round", "White", "Black", "Result" };
static const char* const extraNames[] = { "ECO", "WhiteElo", "BlackElo", "Annotator", "PlyCount", "TimeControl", "Opening",
                                          "Variation", "EventDate", "Termination", "Mode", "Board", "UTCTime", "Source_1", "x", "Tag9_" };

static bool seenCommentByte[256];

static std::string randText(Rng& r, int minLen, int maxLen, bool utf8) {
    int n = r.range(minLen, maxLen);
    std::string s;
    for (int i = 0; i < n; i++) {
        if (utf8 && r.chance(8)) {
            static const char* const u[] = { "\xc3\xa9", "\xc3\xbc", "\xe2\x99\x94", "\xe2\x80\x93", "\xc2\xbd", "\xf0\x9f\x99\x82", "\xd0\x9a" };
            s += u[r.below(7)];
        } else s += (char)r.range(0x20, 0x7e);
    }
    return s;
}

/** Comment text: every printable ASCII character may occur (also { " \ ; % ( ) [ ] $), sometimes line breaks,
 *  tabs and UTF-8. What PGN itself cannot carry is avoided: '}' together with a line break (brace comments end at
 *  the first '}', rest-of-line comments at the line break) and '%' as first character of a line (escape mechanism). */
static std::string randComment(Rng& r) {
    int kind = r.below(100);
    std::string s;
    if (kind < 70) s = randText(r, 1, 24, r.chance(10));
    else if (kind < 90) { // word-like
        int w = r.range(1, 8);
        for (int i = 0; i < w; i++) { if (i) s += ' '; int l = r.range(1, 9); for (int j = 0; j < l; j++) s += (char)r.range('a', 'z'); }
        if (r.chance(30)) s = "[%eval " + std::to_string(r.range(-900, 900)) + "," + std::to_string(r.range(0, 30)) + "] " + s;
        if (r.chance(10)) s = " " + s + " ";
    } else if (kind < 96) s = randText(r, 60, 700, r.chance(20));
    else { s = std::string(1, (char)r.range(0x20, 0x7e)); }
    if (r.chance(12)) {
        int k = r.range(1, 3);
        for (int i = 0; i < k; i++) { static const char* const ws[] = { "\n", "\t", "\r\n", "\n\n" }; s.insert((size_t)r.below((int)s.size() + 1), ws[r.below(4)]); }
    }
    bool hasNl = s.find_first_of("\n\r") != std::string::npos;
    if (hasNl && s.find('}') != std::string::npos)
        for (char& c : s) if (c == '\n' || c == '\r') c = ' ';
    for (size_t i = 1; i < s.size(); i++) if (s[i] == '%' && (s[i - 1] == '\n' || s[i - 1] == '\r')) s[i] = '#';
    for (unsigned char c : s) seenCommentByte[c] = true;
    return s;
}

static void growLine(Rng& r, XGame& g, XNode* at, const ref::Pos& from, int plies, int depth, posgen::Style st, const int* varPct) {
    posgen::Game line = posgen::randomGame(r, from, plies, st);
    XNode* cur = at;
    for (size_t i = 0; i < line.moves.size(); i++) {
        const ref::Pos& P = line.pos[i];
        XNode* n = cur->add(line.moves[i], depth);
        g.nodes++;
        g.maxDepth = std::max(g.maxDepth, depth);
        if (depth < 4 && r.chance(varPct[depth])) {
            std::vector<ref::Mv> legal; ref::genLegal(P, legal);
            int nv = 1 + (r.chance(30) ? 1 : 0) + (r.chance(10) ? 1 : 0);
            for (int v = 0; v < nv; v++) {
                ref::Mv alt; bool dup = true;
                for (int t = 0; t < 6 && dup; t++) {
                    alt = legal[r.below((int)legal.size())];
                    dup = false;
                    for (auto& k : cur->kids) if (k->mv == alt) dup = true;
                }
                if (dup && !r.chance(20)) continue;   // a variation starting with the same move is legitimate PGN but kept rare
                if (dup) g.dups++;
                XNode* s = cur->add(alt, depth + 1);
                g.nodes++; g.variations++;
                g.maxDepth = std::max(g.maxDepth, depth + 1);
                growLine(r, g, s, ref::make(P, alt), r.range(0, depth == 0 ? 9 : 5), depth + 1, st, varPct);
            }
        }
        cur = n;
    }
}

static void decorate(Rng& r, XGame& g, XNode* x, XNode* parent, int pctNag, int pctPost, int pctPre) {
    // x's children: which of them may carry a comment before the move
    for (size_t i = 0; i < x->kids.size(); i++) {
        XNode* k = x->kids[i].get();
        if (i >= 1) k->canPre = true;
        else if (!parent) k->canPre = true;                                               // first move of the game
        else k->canPre = (parent->kids[0].get() == x && parent->kids.size() > 1);        // follows a closed variation
        if (r.chance(pctNag)) {
            int c = r.below(100);
            k->nag = c < 50 ? r.range(1, 6) : c < 92 ? r.range(7, 255) : c < 97 ? r.range(256, 100000) : INT_MAX - r.below(3);
            g.nags++;
        }
        if (r.chance(pctPost)) { k->post = randComment(r); g.comments++; }
        if (k->canPre && r.chance(pctPre)) { k->pre = randComment(r); g.comments++; }
        decorate(r, g, k, x, pctNag, pctPost, pctPre);
    }
}

static std::vector<ref::Pos>* gStartPool;

static void genGame(Rng& r, XGame& g, const GenCfg& cfg) {
    // start position
    posgen::Style st = (posgen::Style)r.below(4);
    if (r.chance(cfg.small ? 40 : 30)) {
        g.setup = true;
        g.start = (*gStartPool)[r.below((int)gStartPool->size())];
        if (r.chance(50)) { // a position from the middle of a game: side, counters, castling rights, e.p. square vary
            posgen::Game pre = posgen::randomGame(r, g.start, r.range(1, 40), st);
            g.start = pre.pos.back();
        }
        g.writeSetUpTag = !r.chance(25);
    } else ref::parseFEN(ref::startFEN, g.start);
    // tree
    static const int pctNormal[4] = { 7, 16, 20, 22 }, pctBushy[4] = { 20, 35, 35, 35 }, pctNone[4] = { 0, 0, 0, 0 };
    int shape = r.below(100);
    const int* pct = shape < 12 ? pctNone : shape < 75 ? pctNormal : pctBushy;
    int plies = cfg.small ? r.range(0, 24) : (r.chance(6) ? r.range(80, 220) : r.chance(8) ? r.range(0, 3) : r.range(4, 70));
    if (pct == pctBushy && !cfg.small) plies = std::min(plies, 40);
    growLine(r, g, &g.root, g.start, plies, 0, st, pct);
    int deco = r.below(100);
    if (deco < 15) decorate(r, g, &g.root, nullptr, 0, 0, 0);
    else if (deco < 75) decorate(r, g, &g.root, nullptr, 12, 15, 30);
    else decorate(r, g, &g.root, nullptr, 45, 60, 70);
    // tags
    int tagMode = r.below(100);
    std::string result = "*";
    { int c = r.below(4); result = c == 0 ? "1-0" : c == 1 ? "0-1" : c == 2 ? "1/2-1/2" : "*"; }
    auto val = [&]() { int c = r.below(100); return c < 8 ? std::string() : c < 70 ? randText(r, 1, 16, r.chance(10)) : c < 85 ? std::string("?") : randText(r, 10, 60, r.chance(20)); };
    bool haveResultTag = false;
    if (tagMode >= 15) {
        for (int i = 0; i < 7; i++) {
            if (tagMode < 50 || r.chance(75)) {
                if (i == 6) { g.tags.push_back({ "Result", r.chance(6) ? std::string("?") : result }); haveResultTag = true; }
                else g.tags.push_back({ strNames[i], val() });
            }
        }
        if (tagMode >= 50) {
            int ne = r.range(0, 5);
            for (int i = 0; i < ne; i++) {
                std::string nm = extraNames[r.below((int)(sizeof(extraNames) / sizeof(*extraNames)))];
                bool dupName = false; for (auto& t : g.tags) if (t.first == nm) dupName = true;
                if (!dupName) g.tags.push_back({ nm, val() });
            }
            if (r.chance(30)) for (size_t i = g.tags.size(); i > 1; i--) std::swap(g.tags[i - 1], g.tags[(size_t)r.below((int)i)]);
        }
    }
    if (g.tags.empty() && !g.setup && g.root.kids.empty()) g.tags.push_back({ "Event", val() });   // an empty game is "no game"
    g.term = result;
    if (haveResultTag) for (auto& t : g.tags) if (t.first == "Result" && t.second == "?") g.term = "*";
}

// ---------------------------------------------------------------------------------------------
// independent PGN writer

struct Writer {
    Rng& r;
    std::string s;
    int col = 0;
    char last = '\n';
    bool crlf = false;
    int width = 80;
    int gluePct = 15;
    int numStyle = 0;       // 0 standard, 1 every move, 2 none, 3 random
    int sanLongPct = 0, zerosPct = 0, noCheckPct = 0;
    bool afterMove = false; // a comment written now would belong to the previous move
    bool forceNumber = true;
    explicit Writer(Rng& rr) : r(rr) {}

    static bool symChar(char c) { return !isspace((unsigned char)c) && !strchr(".*[](){};\"$", c) && c != 0; }
    void raw(const std::string& t) { for (char c : t) { s += c; col = (c == '\n' || c == '\r') ? 0 : col + 1; } if (!t.empty()) last = t.back(); }
    void nl() { raw(crlf ? "\r\n" : "\n"); if (r.chance(2)) { raw("%" + randText(r, 0, 30, false)); raw(crlf ? "\r\n" : "\n"); } }
    void sep() {
        int c = r.below(100);
        if (c < 86) raw(" "); else if (c < 93) nl(); else if (c < 96) raw("  "); else if (c < 98) raw("\t"); else { nl(); nl(); }
    }
    void tok(const std::string& t) {
        bool need = symChar(last) && symChar(t[0]);
        if (col > 0 && col + (int)t.size() + 1 > width) nl();
        else if (col > 0 && (need || !r.chance(gluePct))) sep();
        raw(t);
    }
    void comment(const std::string& c) {
        bool hasClose = c.find('}') != std::string::npos;
        bool hasNl = c.find_first_of("\n\r") != std::string::npos;
        if (hasClose && hasNl) { fprintf(stderr, "h_pgn: unrepresentable comment generated\n"); exit(2); }
        if (hasClose || (!hasNl && r.chance(12))) { tok(";" + c); raw(crlf ? "\r\n" : "\n"); if (gCountWriterStats) rep.add("comments_rest_of_line"); }
        else tok("{" + c + "}");
    }
    static std::string escStr(const std::string& v) { std::string o; for (char c : v) { if (c == '"' || c == '\\') o += '\\'; o += c; } return o; }

    void writeMove(const XNode* n, const ref::Pos& P) {
        bool numFirst = r.chance(50);
        bool wantNum = numStyle == 1 || (numStyle == 0 && (P.wtm || forceNumber)) || (numStyle == 3 && r.chance(50));
        std::string num = std::to_string(P.fullMove) + (P.wtm ? "." : "...");
        if (!P.wtm && r.chance(10)) num = std::to_string(P.fullMove) + ". ...";
        if (wantNum && numFirst && !n->pre.empty()) { tok(num); wantNum = false; }
        if (!n->pre.empty()) {
            if (afterMove) { fprintf(stderr, "h_pgn: writer would misplace a pre comment\n"); exit(2); }
            comment(n->pre);
        } else if (r.chance(1)) tok("{}");   // empty comment: equivalent to no comment
        int style = r.chance(sanLongPct) ? SAN_LONG : r.chance(zerosPct) ? SAN_ZEROS : SAN_STD;
        std::string mv = sanOf(P, n->mv, style, !r.chance(noCheckPct));
        bool nagAsSuffix = n->nag >= 1 && n->nag <= 6 && r.chance(60);
        if (nagAsSuffix) { static const char* const sfx[] = { "", "!", "?", "!!", "??", "!?", "?!" }; mv += sfx[n->nag]; if (gCountWriterStats) rep.add("nags_as_suffix"); }
        if (wantNum) { if (r.chance(40)) mv = num + mv; else tok(num); }
        tok(mv);
        afterMove = true; forceNumber = false;
        bool nagPending = n->nag != 0 && !nagAsSuffix;
        bool commentFirst = r.chance(20);
        if (nagPending && !commentFirst) { tok("$" + std::to_string(n->nag)); nagPending = false; }
        if (!n->post.empty()) { comment(n->post); forceNumber = true; }
        if (nagPending) tok("$" + std::to_string(n->nag));
    }
    void writeVars(const XNode* cur, const ref::Pos& P, size_t i) {
        if (i >= cur->kids.size()) return;
        const XNode* v = cur->kids[i].get();
        tok("("); afterMove = false; forceNumber = true;
        writeMove(v, P);
        // "e4 (d4 (c4))" and "e4 (d4) (c4)" describe the same tree (c4 is a third alternative to e4 either way)
        bool nested = i + 1 < cur->kids.size() && r.chance(12);
        if (nested) { if (gCountWriterStats) rep.add("variations_written_nested_sibling_form"); writeVars(cur, P, i + 1); }
        writeLine(v, ref::make(P, v->mv));
        tok(")"); afterMove = false; forceNumber = true;
        if (!nested) writeVars(cur, P, i + 1);
    }
    void writeLine(const XNode* parent, ref::Pos P) {
        const XNode* cur = parent;
        while (!cur->kids.empty()) {
            const XNode* n = cur->kids[0].get();
            writeMove(n, P);
            writeVars(cur, P, 1);
            P = ref::make(P, n->mv);
            cur = n;
        }
    }
    void writeGame(const XGame& g, bool omitTerm) {
        crlf = r.chance(10);
        { int c = r.below(100); width = c < 60 ? 80 : c < 85 ? 100000 : c < 95 ? 20 : 255; }
        gluePct = r.chance(30) ? 0 : r.chance(50) ? 15 : 60;
        { int c = r.below(100); numStyle = c < 60 ? 0 : c < 75 ? 1 : c < 90 ? 2 : 3; }
        { int c = r.below(100); sanLongPct = c < 70 ? 0 : c < 85 ? 15 : 100; zerosPct = r.chance(20) ? 50 : 0; noCheckPct = r.chance(10) ? 100 : 0; }
        afterMove = false; forceNumber = true;
        // tag section
        std::vector<std::pair<std::string, std::string>> tags = g.tags;
        if (g.setup) {
            std::vector<std::pair<std::string, std::string>> ins;
            if (g.writeSetUpTag) ins.push_back({ "SetUp", "1" });
            ins.push_back({ "FEN", ref::toFEN(g.start) });
            if (ins.size() == 2 && r.chance(20)) std::swap(ins[0], ins[1]);
            size_t at = r.chance(70) ? tags.size() : (size_t)r.below((int)tags.size() + 1);
            tags.insert(tags.begin() + (long)at, ins.begin(), ins.end());
        }
        for (auto& t : tags) {
            raw("["); if (r.chance(5)) raw(" ");
            raw(t.first);
            if (!r.chance(5)) raw(r.chance(95) ? " " : "\t");
            raw("\"" + escStr(t.second) + "\"");
            if (r.chance(5)) raw(" ");
            raw("]");
            if (r.chance(93)) nl(); else raw(" ");
        }
        if (!tags.empty() && !r.chance(10)) nl();
        writeLine(&g.root, g.start);
        if (!omitTerm) tok(g.term);
        nl(); if (r.chance(70)) nl();
    }
};

// ---------------------------------------------------------------------------------------------
// comparison of a parsed GameTree with the expected tree

static std::string mvText(const Move& m) { return m.isEmpty() ? std::string("0000") : TextIO::moveToUCIString(m); }

static std::string cmpNodes(const XNode* x, const std::shared_ptr<Node>& n, bool movesOnly, const std::string& path) {
    const auto& ch = n->getChildren();
    if (ch.size() != x->kids.size())
        return "at [" + path + "] expected " + std::to_string(x->kids.size()) + " children, parsed " + std::to_string(ch.size());
    for (size_t i = 0; i < ch.size(); i++) {
        const XNode* k = x->kids[i].get();
        const std::shared_ptr<Node>& c = ch[i];
        std::string p2 = path + (path.empty() ? "" : " ") + (i ? "(" + std::to_string(i) + ")" : "") + ref::mvStr(k->mv);
        if (!(c->getMove() == toEng(k->mv))) return "at [" + p2 + "] parsed move " + mvText(c->getMove());
        if (c->getParent() != n) return "at [" + p2 + "] parent link broken";
        if (!movesOnly) {
            if (c->getNag() != k->nag) return "at [" + p2 + "] expected NAG " + std::to_string(k->nag) + " parsed " + std::to_string(c->getNag());
            if (c->getPreComment() != k->pre) return "at [" + p2 + "] pre comment expected '" + esc(k->pre) + "' parsed '" + esc(c->getPreComment()) + "'";
            if (c->getPostComment() != k->post) return "at [" + p2 + "] post comment expected '" + esc(k->post) + "' parsed '" + esc(c->getPostComment()) + "'";
        } else {
            if (c->getNag() != 0 || !c->getPreComment().empty() || !c->getPostComment().empty()) return "at [" + p2 + "] annotation out of nowhere";
        }
        std::string d = cmpNodes(k, c, movesOnly, p2);
        if (!d.empty()) return d;
    }
    return "";
}

/** The start position the reader must arrive at: the FEN's board, side, castling rights, counters; e.p. square kept
 *  only when an e.p. capture is legal (TextIO::readFEN documents/implements that normalisation, FIDE-identical). */
static std::string cmpStart(const ref::Pos& want0, const Position& got) {
    ref::Pos want = want0;
    if (!ref::epLegal(want)) want.ep = -1;
    ref::Pos g = toRef(got);
    if (memcmp(g.b, want.b, 64) != 0 || g.wtm != want.wtm || g.castle != want.castle || g.ep != want.ep || g.hmc != want.hmc || g.fullMove != want.fullMove)
        return "start position expected " + ref::toFEN(want) + " parsed " + TextIO::toFEN(got);
    return "";
}

static std::string cmpGame(const XGame& g, GameTree& gt, bool movesOnly) {
    GameNode rootGn = gt.getRootNode();
    std::string d = cmpStart(g.start, rootGn.getPos());
    if (!d.empty()) return d;
    if (!movesOnly) {
        std::map<std::string, std::string> want;
        for (int i = 0; i < 6; i++) want[strNames[i]] = "?";          // reader's documented defaults for the seven tag roster
        std::string result = "?";
        for (auto& t : g.tags) { if (t.first == "Result") result = t.second; else want[t.first] = t.second; }
        std::map<std::string, std::string> got;
        gt.getHeaders(got);
        got.erase("SetUp"); got.erase("Setup"); got.erase("FEN");     // represented by the start position
        if (got != want) {
            std::string a, b;
            for (auto& kv : want) a += kv.first + "=" + esc(kv.second) + ";";
            for (auto& kv : got) b += kv.first + "=" + esc(kv.second) + ";";
            return "headers expected {" + a + "} parsed {" + b + "}";
        }
        GameTree::Result wr = result == "1-0" ? GameTree::WHITE_WIN : result == "0-1" ? GameTree::BLACK_WIN : result == "1/2-1/2" ? GameTree::DRAW : GameTree::UNKNOWN;
        if (gt.getResult() != wr) return "result expected " + result + " parsed enum " + std::to_string((int)gt.getResult());
    }
    std::shared_ptr<Node> rn = rootGn.getNode();
    if (!rn) return "no root node";
    if (!rn->getMove().isEmpty()) return "root node has a move";
    d = cmpNodes(&g.root, rn, movesOnly, "");
    if (!d.empty()) return d;
    // the position the tree reports at the end of the main line is the refchess position
    {
        ref::Pos P = g.start; const XNode* x = &g.root; std::shared_ptr<Node> n = rn;
        while (!x->kids.empty()) { P = ref::make(P, x->kids[0]->mv); x = x->kids[0].get(); n = n->getChildren()[0]; }
        if (n != rn) {
            GameNode leaf = gt.getNode(n);
            ref::Pos L = toRef(leaf.getPos());
            if (memcmp(L.b, P.b, 64) != 0 || L.wtm != P.wtm || L.castle != P.castle || L.hmc != P.hmc || L.fullMove != P.fullMove)
                return "main line end position expected " + ref::toFEN(P) + " parsed " + TextIO::toFEN(leaf.getPos());
        }
    }
    return "";
}

// route (a): the repository's writer
static void buildEngineTree(GameNode& gn, const XNode* x) {
    for (size_t i = 0; i < x->kids.size(); i++) {
        gn.insertMove(toEng(x->kids[i]->mv));
        gn.goForward((int)i);
        buildEngineTree(gn, x->kids[i].get());
        gn.goBack();
    }
}

static std::string routeA(const XGame& g, std::string& textOut) {
    Position sp;
    std::string fen = ref::toFEN(g.start);
    if (!readFEN(fen, sp)) return "engine rejects start FEN " + fen;
    GameTree gt;
    gt.setStartPos(sp);
    GameNode gn = gt.getRootNode();
    buildEngineTree(gn, &g.root);
    std::string str;
    std::set<GameTree::RangeToNode> ranges;
    gt.getGameTreeString(str, ranges);
    textOut = (g.setup ? "[FEN \"" + TextIO::toFEN(sp) + "\"]\n" : std::string()) + str;
    if (!g.setup && str.empty()) return "";     // nothing written, nothing to read
    std::istringstream is(textOut);
    PgnReader rd(is);
    GameTree back;
    bool ok;
    try { ok = rd.readPGN(back); } catch (const std::exception& e) { return std::string("reader threw: ") + e.what(); }
    if (!ok) return "reader found no game";
    std::string d = cmpGame(g, back, true);
    if (!d.empty()) return d;
    GameTree none;
    try { ok = rd.readPGN(none); } catch (const std::exception& e) { return std::string("reader threw after the game: ") + e.what(); }
    if (ok) return "reader found a second game";
    rep.add("engine_written_trees");
    rep.add("engine_written_bytes", (long long)textOut.size());
    return "";
}

// oracle sensitivity: damage the expected tree in one aspect
static void collect(XNode* x, std::vector<XNode*>& out) { for (auto& k : x->kids) { out.push_back(k.get()); collect(k.get(), out); } }

static std::string damage(Rng& r, XGame& g) {
    std::vector<XNode*> all; collect(&g.root, all);
    for (int t = 0; t < 50; t++) {
        int k = r.below(7);
        if (k == 0 && !all.empty()) { all[r.below((int)all.size())]->nag += 1; return "nag"; }
        if (k == 1 && !all.empty()) { all[r.below((int)all.size())]->post += "x"; return "post"; }
        if (k == 2 && !all.empty()) { XNode* n = all[r.below((int)all.size())]; if (!n->canPre) continue; n->pre += "x"; return "pre"; }
        if (k == 3 && !all.empty()) {
            std::vector<XNode*> inner; inner.push_back(&g.root); for (XNode* n : all) inner.push_back(n);
            XNode* n = inner[r.below((int)inner.size())];
            if (n->kids.empty()) continue;
            n->kids.pop_back(); return "drop-subtree";
        }
        if (k == 4 && !all.empty()) {
            std::vector<XNode*> inner; inner.push_back(&g.root); for (XNode* n : all) inner.push_back(n);
            XNode* n = inner[r.below((int)inner.size())];
            if (n->kids.size() < 2 || n->kids[0]->mv == n->kids[1]->mv) continue;
            std::swap(n->kids[0], n->kids[1]); return "swap-main-and-variation";
        }
        if (k == 5) { if (g.tags.empty()) continue; auto& tg = g.tags[r.below((int)g.tags.size())]; if (tg.first == "Result") tg.second = tg.second == "1-0" ? "0-1" : "1-0"; else tg.second += "x"; return "header"; }
        if (k == 6) { g.start.fullMove += 1; return "start-counter"; }
    }
    g.start.hmc += 1; return "start-counter";
}

// ---------------------------------------------------------------------------------------------
// pgn mode

static void initStartPool(std::vector<ref::Pos>& pool) {
    for (auto* lst : { &posgen::trickyFens(), &posgen::stormFens() })
        for (auto& f : *lst) { ref::Pos p; if (!ref::parseFEN(f, p)) { fprintf(stderr, "bad fen %s\n", f.c_str()); exit(2); } pool.push_back(p); }
    gStartPool = &pool;
}

static int runPgn(uint64_t seed, long long ntrees, bool negative, bool show) {
    Rng r(seed);
    std::vector<ref::Pos> pool; initStartPool(pool);
    long long trees = 0, streams = 0;
    GenCfg cfg;
    while (trees < ntrees) {
        alarm(WATCHDOG_S);
        int ng = r.below(100) < 60 ? 1 : r.below(100) < 60 ? 2 : 3;
        std::vector<std::unique_ptr<XGame>> games;
        Writer w(r);
        std::vector<size_t> ends;
        for (int i = 0; i < ng; i++) {
            games.emplace_back(new XGame);
            genGame(r, *games.back(), cfg);
            bool omit = i == ng - 1 && r.chance(10);
            w.writeGame(*games.back(), omit);
            if (omit) rep.add("games_without_termination_marker");
            ends.push_back(w.s.size());
        }
        const std::string& text = w.s;
        std::string tag = "pgn seed " + std::to_string(seed) + " stream " + std::to_string(streams) + " games " + std::to_string(ng);
        setCrumb(tag + " text " + esc(text));
        if (show) { printf("---- %s\n%s\n", tag.c_str(), text.c_str()); }
        streams++;
        rep.add("streams");
        rep.add("bytes", (long long)text.size());
        for (size_t i = 0, b = 0; i < ends.size(); b = ends[i++]) rep.distinct.insert(fnv(text.substr(b, ends[i] - b)));   // one hash per game text
        std::string dmg;
        if (negative) { dmg = damage(r, *games[(size_t)r.below(ng)]); rep.add("neg_cases"); rep.add("neg_kind_" + dmg); }
        // route (b): independent writer -> PgnReader
        std::istringstream is(text);
        PgnReader rd(is);
        std::string diff;
        for (int i = 0; i < ng && diff.empty(); i++) {
            GameTree gt;
            bool ok = false;
            try { ok = rd.readPGN(gt); }
            catch (const ChessParseError& e) { diff = "game " + std::to_string(i) + ": reader rejected valid PGN: " + e.what(); break; }
            catch (const std::exception& e) { diff = "game " + std::to_string(i) + ": reader threw " + e.what(); break; }
            if (!ok) { diff = "game " + std::to_string(i) + ": reader reports no more games"; break; }
            std::string d = cmpGame(*games[(size_t)i], gt, false);
            if (!d.empty()) diff = "game " + std::to_string(i) + ": " + d;
        }
        if (diff.empty()) {
            GameTree extra; bool ok = false;
            try { ok = rd.readPGN(extra); } catch (const std::exception& e) { diff = std::string("after last game: reader threw ") + e.what(); }
            if (ok) diff = "reader found a game after the last one";
        }
        if (negative) {
            if (diff.empty()) { rep.add("neg_missed"); rep.viol("oracle-insensitive", tag + " damage " + dmg + " not noticed"); }
            else rep.add("neg_detected");
        } else if (!diff.empty()) {
            rep.viol("pgn-roundtrip", tag + ": " + diff + " | text " + esc(text));
        }
        // route (a): repository writer -> PgnReader
        if (!negative) for (int i = 0; i < ng; i++) {
            std::string t2;
            setCrumb(tag + " routeA game " + std::to_string(i) + " of text " + esc(text));
            std::string d = routeA(*games[(size_t)i], t2);
            if (!d.empty()) rep.viol("pgn-roundtrip-own-writer", tag + " game " + std::to_string(i) + ": " + d + " | text " + esc(t2));
        }
        for (auto& gp : games) {
            XGame& g = *gp;
            trees++;
            rep.add("trees");
            rep.add("nodes", g.nodes);
            rep.add("variations", g.variations);
            rep.add("comments", g.comments);
            rep.add("nags", g.nags);
            rep.add("headers", (long long)g.tags.size());
            rep.add("variation_first_move_equals_sibling", g.dups);
            if (g.setup) rep.add("start_fen_games");
            if (g.setup && !g.writeSetUpTag) rep.add("start_fen_games_without_setup_tag");
            if (g.setup && !g.start.wtm) rep.add("start_fen_black_to_move");
            if (g.root.kids.empty()) rep.add("trees_without_moves");
            rep.add("trees_nesting_" + std::to_string(g.maxDepth));
            rep.stat["max_nesting"] = std::max<long long>(rep.stat["max_nesting"], g.maxDepth);
            rep.stat["max_nodes_in_tree"] = std::max<long long>(rep.stat["max_nodes_in_tree"], g.nodes);
        }
        if (streams % 997 == 5) rep.sample(esc(text.substr(0, 400)));
    }
    int seen = 0, seenPrintable = 0;
    for (int c = 0; c < 256; c++) if (seenCommentByte[c]) { seen++; if (c >= 0x20 && c < 0x7f) seenPrintable++; }
    rep.stat["comment_distinct_bytes"] = seen;
    rep.stat["comment_distinct_printable_ascii"] = seenPrintable;   // 95 = all of them
    return 0;
}

// ---------------------------------------------------------------------------------------------
// garbage mode: entry points

static std::vector<Position>* gPool;         // positions for stringToMove
static std::vector<ref::Pos>* gPoolRef;

static void exerciseAcceptedFen(Position& pos, const std::string& input) {
    // what every consumer of a freshly set up position does first
    MoveList ml;
    MoveGen::pseudoLegalMoves(pos, ml);
    MoveGen::removeIllegal(pos, ml);
    (void)MoveGen::inCheck(pos);
    volatile U64 sink = pos.zobristHash() ^ pos.historyHash() ^ pos.bookHash() ^ (U64)pos.materialId();
    (void)sink;
    rep.add("fen_accepted_legal_moves", ml.size);
    rep.stat["max_fen_accepted_legal_moves"] = std::max<long long>(rep.stat["max_fen_accepted_legal_moves"], ml.size);
    // position text round trip
    std::string fen2 = TextIO::toFEN(pos);
    Position back;
    if (!readFEN(fen2, back)) rep.viol("accepted-fen-own-text-rejected", "input " + esc(input) + " written back as " + esc(fen2));
    else if (!(back == pos)) rep.viol("accepted-fen-roundtrip", "input " + esc(input) + " written back as " + esc(fen2) + " reads as " + esc(TextIO::toFEN(back)));
    // play and take back every legal move
    const Position orig(pos);
    for (int i = 0; i < ml.size; i++) {
        UndoInfo ui;
        pos.makeMove(ml[i], ui);
        if (i < 3) { volatile size_t l = TextIO::toFEN(pos).size(); (void)l; }
        pos.unMakeMove(ml[i], ui);
    }
    if (!(orig == pos)) rep.viol("accepted-fen-make-unmake", "input " + esc(input));
    // move text of a few moves
    int step = ml.size <= 6 ? 1 : ml.size / 6;
    for (int i = 0; i < ml.size; i += step) {
        const Move m = ml[i];
        for (int lf = 0; lf < 2; lf++) {
            std::string t = TextIO::moveToString(pos, m, lf == 1);
            Move b = TextIO::stringToMove(pos, t);
            if (!(b == m)) rep.viol("accepted-fen-move-text", "input " + esc(input) + " move " + mvText(m) + " text " + t + " parsed " + mvText(b));
        }
        Move u = TextIO::uciStringToMove(TextIO::moveToUCIString(m));
        if (!(u == m)) rep.viol("accepted-fen-uci-text", "input " + esc(input) + " move " + mvText(m));
        rep.add("fen_accepted_moves_text_checked");
    }
}

static void feedFen(const std::string& s) {
    rep.add("ep_fen_calls");
    Position pos;
    try { pos = TextIO::readFEN(s); }
    catch (const ChessParseError&) { rep.add("ep_fen_rejected"); return; }
    rep.add("ep_fen_accepted");
    exerciseAcceptedFen(pos, s);
}

static void feedMove(const std::string& s, int home) {
    // the text is offered in its home position (when it has one) and in a few others
    size_t n = gPool->size();
    size_t idx[4] = { home >= 0 ? (size_t)home : fnv(s) % n, (fnv(s) >> 8) % n, (fnv(s) >> 20) % n, 0 };
    for (size_t k = 0; k < 4; k++) {
        Position& pos = (*gPool)[idx[k]];
        Position before(pos);
        rep.add("ep_move_calls");
        Move m;
        try { m = TextIO::stringToMove(pos, s); }
        catch (const ChessParseError&) { rep.add("ep_move_rejected"); continue; }
        if (m.isEmpty()) rep.add("ep_move_rejected");
        else {
            rep.add("ep_move_accepted");
            ref::Mv rm = toRef(m);
            if (!ref::isLegal((*gPoolRef)[idx[k]], rm)) rep.viol("stringToMove-illegal-move", "fen " + TextIO::toFEN(before) + " text " + esc(s) + " gave " + mvText(m));
            (void)TextIO::moveToString(pos, m, false);
        }
        if (!(pos == before)) { rep.viol("stringToMove-modified-position", "fen " + TextIO::toFEN(before) + " text " + esc(s)); pos = before; }
    }
}

static void feedUci(const std::string& s) {
    rep.add("ep_uci_calls");
    Move m;
    try { m = TextIO::uciStringToMove(s); }
    catch (const ChessParseError&) { rep.add("ep_uci_rejected"); return; }
    if (m.isEmpty()) { rep.add("ep_uci_rejected"); return; }
    rep.add("ep_uci_accepted");
    std::string t = TextIO::moveToUCIString(m);
    if (!m.from().isValid() || !m.to().isValid() || t.size() < 4) rep.viol("uci-accepted-invalid-squares", "text " + esc(s));
    // what the UCI front end does with it: look it up in the legal moves of the current position
    Position& pos = (*gPool)[fnv(s) % gPool->size()];
    MoveList ml; MoveGen::pseudoLegalMoves(pos, ml); MoveGen::removeIllegal(pos, ml);
    for (int i = 0; i < ml.size; i++) if (ml[i] == m) { UndoInfo ui; pos.makeMove(m, ui); pos.unMakeMove(m, ui); rep.add("uci_accepted_and_legal_somewhere"); break; }
}

static void walkTree(GameNode& gn, long long& nodes, int depth, int& maxDepth) {
    maxDepth = std::max(maxDepth, depth);
    int n = gn.nChildren();
    for (int i = 0; i < n; i++) {
        gn.goForward(i);
        nodes++;
        (void)gn.getComment();
        if ((nodes & 15) == 1) { volatile size_t l = TextIO::toFEN(gn.getPos()).size(); (void)l; }
        walkTree(gn, nodes, depth + 1, maxDepth);
        gn.goBack();
    }
}

static void feedPgn(const std::string& s) {
    rep.add("ep_pgn_calls");
    std::istringstream is(s);
    PgnReader rd(is);
    long long games = 0;
    size_t guard = s.size() + 4;     // every accepted game consumes at least one character
    try {
        while (true) {
            GameTree gt;
            if (!rd.readPGN(gt)) break;
            games++;
            if (games > (long long)guard) { rep.viol("pgn-reader-does-not-advance", "input " + esc(s)); break; }
            // what the callers in texelutil / bookbuild do with an accepted game
            std::map<std::string, std::string> hdr; gt.getHeaders(hdr);
            (void)gt.getResult();
            GameNode gn = gt.getRootNode();
            long long nodes = 0; int md = 0;
            walkTree(gn, nodes, 0, md);
            std::string str; std::set<GameTree::RangeToNode> ranges;
            gt.getGameTreeString(str, ranges);
            if ((long long)ranges.size() != nodes) rep.add("pgn_accepted_range_count_differs");
            rep.add("pgn_accepted_games");
            rep.add("pgn_accepted_nodes", nodes);
            rep.stat["max_pgn_accepted_tree_depth"] = std::max<long long>(rep.stat["max_pgn_accepted_tree_depth"], md);
        }
        if (games > 0) rep.add("ep_pgn_accepted"); else rep.add("ep_pgn_rejected");   // clean "no game"
    } catch (const ChessParseError&) {
        rep.add("ep_pgn_rejected");
        rep.add("ep_pgn_rejected_by_exception");
        if (games > 0) rep.add("ep_pgn_rejected_after_some_games");
    }
}

static void feedNum(const std::string& s) {
    rep.add("ep_num_calls");
    bool any = false;
    { int v = 0; any |= str2Num(s, v); }
    { double v = 0; any |= str2Num(s, v); }
    { U64 v = 0; any |= str2Num(s, v); }
    { S64 v = 0; any |= str2Num(s, v); }
    { U16 v = 0; any |= str2Num(s, v); }
    { U64 v = 0; any |= hexStr2Num(s, v); }
    { std::vector<std::string> w; splitString(s, w); for (size_t i = 0; i < w.size() && i < 12; i++) { int v; any |= str2Num(w[i], v); } (void)splitLines(s); }
    (void)trim(s); (void)toLowerCase(s); (void)startsWith(s, "position"); (void)endsWith(s, "\n");
    rep.add(any ? "ep_num_accepted" : "ep_num_rejected");
}

static long long nowUs() { struct timespec ts; clock_gettime(CLOCK_MONOTONIC, &ts); return ts.tv_sec * 1000000LL + ts.tv_nsec / 1000; }

enum { T_FEN = 1, T_MOVE = 2, T_UCI = 4, T_PGN = 8, T_NUM = 16, T_ALL = 31 };

static void feedAll(const std::string& s, int targets, int homePos) {
    auto guard = [&](const char* ep, void (*f)(const std::string&)) {
        try { f(s); }
        catch (const ChessParseError& e) { rep.viol("parse-error-escaped-late", std::string(ep) + ": " + e.what() + " | input " + esc(s)); }
        catch (const std::exception& e) { rep.viol("foreign-exception", std::string(ep) + ": " + e.what() + " | input " + esc(s)); }
        catch (...) { rep.viol("foreign-exception", std::string(ep) + ": unknown | input " + esc(s)); }
    };
    long long t0 = nowUs(), t1;
    auto lap = [&](const char* k) { t1 = nowUs(); rep.stat[k] += t1 - t0; t0 = t1; };
    if (targets & T_FEN) { guard("readFEN", feedFen); lap("time_us_fen"); }
    if (targets & T_MOVE) { try { feedMove(s, homePos); } catch (const std::exception& e) { rep.viol("foreign-exception", std::string("stringToMove: ") + e.what() + " | input " + esc(s)); } lap("time_us_move"); }
    if (targets & T_UCI) { guard("uciStringToMove", feedUci); lap("time_us_uci"); }
    if (targets & T_PGN) { guard("readPGN", feedPgn); lap("time_us_pgn"); }
    if (targets & T_NUM) { guard("str2Num", feedNum); lap("time_us_num"); }
}

// ---------------------------------------------------------------------------------------------
// garbage mode: inputs

static const size_t MAXLEN = 4096;

struct Seed { std::string text; int type; int homePos; };   // type: 0 fen 1 move 2 pgn 3 num
static const char* const typeNames[] = { "fen", "move", "pgn", "num" };

static const std::vector<std::string>& dict() {
    static const std::vector<std::string> d = {
        "99999999999999999999", "2147483647", "2147483648", "-2147483648", "-2147483649", "4294967295", "4294967296", "18446744073709551616",
        "-1", "-0", "0", "00000000000000000000001", "1e309", "1e-400", "0x7fffffff", "nan", "inf", "-inf", "+5", "100", "101", "255", "256", "65535", "65536",
        " ", "  ", "\t", "\n", "\r\n", "/", "//", "8", "9", "1", "44", "w", "b", "KQkq", "kq", "-", "e3", "e6", "d3", "d6", "a9", "i1", "z0", "`0",
        "K", "k", "Q", "q", "R", "r", "B", "N", "n", "P", "p", "x", "=", "+", "#", "!", "?", "!!", "??", "!?", "?!", "!!!", "+!", "+-",
        "O-O", "O-O-O", "0-0", "0-0-0", "o-o", "o-o-o", "--", "e8=Q", "e1=q", "e8Q", "exd8=N+",
        "(", ")", "((((", "))))", "{", "}", "[", "]", "\"", "\\", "\\\"", "$", "$1", "$255", "$99999999999999999999", "$-1", "$$", ";", "%", "\n%", "*",
        "1-0", "0-1", "1/2-1/2", "1.", "1...", "12.", "[FEN \"", "[SetUp \"1\"]", "[Event \"", "\"]", "[Result \"1-0\"]",
        "[FEN \"8/8/8/8/8/8/8/8 w - - 0 1\"]", "[FEN \"4k3/8/8/8/8/8/8/4K2R w K - 0 1\"]", "[FEN \"4k3/8/8/8/8/8/8/4K2R b K - 0 1\"]",
        std::string("\0", 1), "\xff", "\x80", "\xc3\xa9", "\xef\xbb\xbf", "Nf3", "e4", "e5", "exd5", "Qxh7#", "Kxe2", "a1", "h8", "a1a1", "e7e8q", "e2e1n", "0000", "e7e8k", "e7e8 ",
        "QQQQQQQQ", "qqqqqqqq", "Q1Q1Q1Q1", "1Q1Q1Q1Q", "PPPPPPPP", "pppppppp", "RNBQKBNR", "8/8/8/8", "KK", "kk", "7k", "K7",
    };
    return d;
}

static const char* const alphabets[4] = {
    "12345678/KQRBNPkqrbnpwb- abcdefgh09",                    // fen
    "KQRBNPabcdefgh12345678x=+#-O0!?qrbnk",                   // move
    "KQRBNabcdefgh12345678x=+#-O0!?(){}[]\"\\$;%.* \n\t/019", // pgn
    "0123456789+-.eExXabcdefABCDEF naif",                     // num
};

struct Mutator {
    Rng& r;
    const std::vector<Seed>& seeds;
    std::vector<std::string> kinds;   // mutation kinds applied to the current input
    Mutator(Rng& rr, const std::vector<Seed>& s) : r(rr), seeds(s) {}

    static void cap(std::string& s) { if (s.size() > MAXLEN) s.resize(MAXLEN); }
    size_t pos(const std::string& s, bool allowEnd = true) { return s.empty() ? 0 : (size_t)r.below((int)s.size() + (allowEnd ? 1 : 0)); }
    int bigCount() { int c = r.below(100); return c < 50 ? r.range(2, 8) : c < 85 ? r.range(9, 100) : r.range(101, 2000); }

    static void tokens(const std::string& s, std::vector<std::pair<size_t, size_t>>& out) {
        size_t i = 0;
        while (i < s.size()) {
            while (i < s.size() && isspace((unsigned char)s[i])) i++;
            size_t b = i;
            while (i < s.size() && !isspace((unsigned char)s[i])) i++;
            if (i > b) out.push_back({ b, i - b });
        }
    }

    void one(std::string& s, int type) {
        int k = r.below(19);
        std::vector<std::pair<size_t, size_t>> tk;
        switch (k) {
        case 0: { kinds.push_back("bitflip"); if (s.empty()) break; int n = r.chance(70) ? 1 : r.range(2, 8); for (int i = 0; i < n; i++) s[pos(s, false)] ^= (char)(1 << r.below(8)); break; }
        case 1: { kinds.push_back("byte_random"); if (s.empty()) break; int n = r.chance(70) ? 1 : r.range(2, 8); for (int i = 0; i < n; i++) s[pos(s, false)] = (char)r.below(256); break; }
        case 2: { kinds.push_back("byte_alphabet"); if (s.empty()) break; const char* a = alphabets[type]; int n = r.chance(60) ? 1 : r.range(2, 12); for (int i = 0; i < n; i++) s[pos(s, false)] = a[r.below((int)strlen(a))]; break; }
        case 3: { kinds.push_back("byte_insert_alphabet"); const char* a = alphabets[type]; int n = r.chance(60) ? 1 : r.range(2, 12); for (int i = 0; i < n; i++) s.insert(pos(s), 1, a[r.below((int)strlen(a))]); break; }
        case 4: { kinds.push_back("token_insert"); const std::string& t = dict()[r.below((int)dict().size())]; s.insert(pos(s), t); break; }
        case 5: { kinds.push_back("token_replace"); tokens(s, tk); if (tk.empty()) break; auto t = tk[r.below((int)tk.size())]; s.replace(t.first, t.second, dict()[r.below((int)dict().size())]); break; }
        case 6: { kinds.push_back("token_swap"); tokens(s, tk); if (tk.size() < 2) break; size_t a = (size_t)r.below((int)tk.size()), b = (size_t)r.below((int)tk.size()); if (a == b) break; if (a > b) std::swap(a, b);
                  std::string ta = s.substr(tk[a].first, tk[a].second), tb = s.substr(tk[b].first, tk[b].second);
                  s.replace(tk[b].first, tk[b].second, ta); s.replace(tk[a].first, tk[a].second, tb); break; }
        case 7: { kinds.push_back("token_delete"); tokens(s, tk); if (tk.empty()) break; auto t = tk[r.below((int)tk.size())]; s.erase(t.first, t.second); break; }
        case 8: { kinds.push_back("truncate"); if (s.empty()) break; s.resize(pos(s, false)); break; }
        case 9: { kinds.push_back("chunk_repeat"); if (s.empty()) break; size_t a = pos(s, false); size_t l = 1 + (size_t)r.below((int)std::min<size_t>(s.size() - a, r.chance(50) ? 4 : 64)); std::string c = s.substr(a, l);
                  int n = bigCount(); std::string rep2; for (int i = 0; i < n && rep2.size() < MAXLEN; i++) rep2 += c; s.insert(a, rep2); break; }
        case 10: { kinds.push_back("chunk_delete"); if (s.empty()) break; size_t a = pos(s, false); s.erase(a, 1 + (size_t)r.below((int)std::min<size_t>(s.size() - a, 40))); break; }
        case 11: { kinds.push_back("splice"); const Seed& o = seeds[r.below((int)seeds.size())]; size_t a = pos(s), b = pos(o.text); s = s.substr(0, a) + o.text.substr(b); break; }
        case 12: { kinds.push_back("nul_bytes"); int n = r.chance(70) ? 1 : r.range(2, 16); for (int i = 0; i < n; i++) s.insert(pos(s), 1, '\0'); break; }
        case 13: { kinds.push_back("high_bytes"); int n = r.chance(50) ? 1 : r.range(2, 16); for (int i = 0; i < n; i++) { if (r.chance(50) && !s.empty()) s[pos(s, false)] = (char)r.range(0x80, 0xff); else s.insert(pos(s), 1, (char)r.range(0x80, 0xff)); } break; }
        case 14: { kinds.push_back("deep_nesting"); static const char* const pat[] = { "(", "{", "[", "(e4 ", "(a3 ", "( ", "((", "$", "\"", "1.", "(Nf3 (", ")" };
                   std::string p = pat[r.below(12)]; int n = bigCount(); std::string t; for (int i = 0; i < n && t.size() < MAXLEN; i++) t += p;
                   if (r.chance(30)) { std::string cl; for (int i = 0; i < n && cl.size() < MAXLEN; i++) cl += p == "{" ? "}" : p == "[" ? "]" : ")"; t += cl; }
                   s.insert(pos(s), t); break; }
        case 15: { kinds.push_back("unterminated"); int c = r.below(4);
                   if (c == 0) { size_t p = s.find_last_of("}\")]"); if (p != std::string::npos) s.erase(p, 1); else s += "{"; }
                   else { static const char* const op[] = { "", "{", "\"", ";" }; s.insert(pos(s), op[c]); if (r.chance(50)) s.resize(std::min(s.size(), pos(s) + 1)); }
                   break; }
        case 16: { kinds.push_back("huge_number"); static const char* const nums[] = { "99999999999999999999", "2147483647", "2147483648", "-2147483648", "-1", "4294967295", "-99999999999999999999", "00000000000000000000000000000000001", "1e999", "-2147483647", "999999999", "-100", "32768", "65536" };
                   size_t a = std::string::npos; std::vector<size_t> runs; for (size_t i = 0; i < s.size(); i++) if (isdigit((unsigned char)s[i]) && (i == 0 || !isdigit((unsigned char)s[i - 1]))) runs.push_back(i);
                   if (!runs.empty()) a = runs[r.chance(50) ? runs.size() - 1 - (size_t)r.below((int)std::min<size_t>(2, runs.size())) : (size_t)r.below((int)runs.size())];
                   if (a == std::string::npos) { s.insert(pos(s), nums[r.below(14)]); break; }
                   size_t e = a; while (e < s.size() && isdigit((unsigned char)s[e])) e++;
                   s.replace(a, e - a, nums[r.below(14)]); break; }
        case 17: { kinds.push_back("pad_to_limit"); size_t target = r.chance(50) ? MAXLEN : (size_t)r.range(1000, 4096); if (s.empty()) s = " ";
                   int m = r.below(3); std::string base = s;
                   if (m == 2) { std::string pre; while (pre.size() + s.size() < target) pre += alphabets[type][r.below((int)strlen(alphabets[type]))]; s = pre + s; }
                   while (s.size() < target) { if (m == 0) s += base; else s += ' ' + base; }
                   break; }
        case 18: { kinds.push_back("whitespace"); static const char* const ws[] = { " ", "\n", "\t", "\r", "\v", "\f", "   ", "\n\n" }; int n = r.range(1, 6);
                   for (int i = 0; i < n; i++) { if (r.chance(50)) s.insert(pos(s), ws[r.below(8)]); else { size_t p = s.find(' '); if (p != std::string::npos) s.replace(p, 1, ws[r.below(8)]); } } break; }
        }
        cap(s);
    }
};

static void buildSeeds(Rng& r, std::vector<Seed>& seeds, std::vector<Position>& pool, std::vector<ref::Pos>& poolRef, std::vector<ref::Pos>& startPool) {
    initStartPool(startPool);
    // positions
    std::vector<ref::Pos> all = startPool;
    for (int i = 0; i < 40; i++) {
        posgen::Game g = posgen::randomGame(r, startPool[r.below((int)startPool.size())], r.range(1, 80), (posgen::Style)r.below(4));
        all.push_back(g.pos.back());
        all.push_back(g.pos[g.pos.size() / 2]);
    }
    for (int t = 0; t < posgen::T_NTEMPLATES; t++) for (int i = 0; i < 3; i++) all.push_back(posgen::synthetic(r, t));
    for (const ref::Pos& p : all) seeds.push_back({ ref::toFEN(p), 0, -1 });
    // hand-written FEN forms: missing fields, e.p. given, extra spaces, power boards
    for (const char* f : { "rnbqkbnr/pppppppp/8/8/8/8/PPPPPPPP/RNBQKBNR w", "8/8/8/8/8/8/8/K1k5 w - -", "4k3/8/8/3pP3/8/8/8/4K3 w - d6 0 1",
                           "4k3/8/8/8/3pP3/8/8/4K3 b - e3 12 34", "  4k3/8/8/8/8/8/8/4K3   b   -   -   7   9  ", "k7/8/8/8/8/8/8/7K w - - 99 150", "k7/8/8/8/8/8/8/7K b - - 100 1",
                           // boards no game can reach but the FEN grammar allows: many queens, side to move has 206..259 moves
                           "2Q3nk/4Q1pp/1Q4Q1/3Q4/Q4Q2/2Q4Q/4Q3/K7 w - - 0 1", "1QQQQQnk/Q5pp/Q6Q/Q6Q/Q3Q2Q/Q6Q/QQ5Q/K1QQQQQ1 w - - 0 1",
                           "QQQQQQnk/Q4Qpp/Q5Q1/Q6Q/Q6Q/Q6Q/1Q5Q/K1QQQQQQ w - - 0 1", "k1qqqqqq/1q5q/q6q/q6q/q6q/q5q1/q4qPP/qqqqqqNK b - - 0 1",
                           "n1n1n1nk/1P1P1P1P/1Q1QQ2Q/Q4Q2/Q6Q/5Q2/Q6Q/KQQ1QQQ1 w - - 0 1",
                           "r3k2r/8/8/8/8/8/8/R3K2R w KQkq - 0 1", "r3k2r/8/8/8/8/8/8/R3K2R b qkQK - 3 2", "8/8/8/8/8/8/8/8 w - - 0 1" })
        seeds.push_back({ f, 0, -1 });
    // stringToMove pool
    for (size_t i = 0; i < all.size() && pool.size() < 48; i += 2) {
        Position P; if (!readFEN(ref::toFEN(all[i]), P)) continue;
        ref::Pos R = all[i]; if (!ref::epLegal(R)) R.ep = -1;
        pool.push_back(P); poolRef.push_back(R);
    }
    // move text
    for (size_t pi = 0; pi < poolRef.size(); pi++) {
        std::vector<ref::Mv> legal; ref::genLegal(poolRef[pi], legal);
        for (size_t i = 0; i < legal.size(); i += 3) {
            int form = r.below(5);
            std::string t = form == 0 ? sanOf(poolRef[pi], legal[i], SAN_STD, true) : form == 1 ? sanOf(poolRef[pi], legal[i], SAN_LONG, true)
                          : form == 2 ? ref::mvStr(legal[i]) : form == 3 ? TextIO::moveToString(pool[pi], toEng(legal[i]), false) : TextIO::moveToString(pool[pi], toEng(legal[i]), true);
            seeds.push_back({ t, 1, (int)pi });
        }
    }
    for (const char* m : { "O-O", "O-O-O", "0-0", "0-0-0", "--", "e8=Q+", "exd8=N#", "Nbd7", "R1a3", "Qh4e1", "e2e4", "e7e8q", "a7a8n", "h2h1r" }) seeds.push_back({ m, 1, -1 });
    // PGN text
    GenCfg cfg; cfg.small = true;
    int made = 0;
    while (made < 120) {
        int ng = r.chance(75) ? 1 : 2;
        Writer w(r);
        for (int i = 0; i < ng; i++) { XGame g; genGame(r, g, cfg); w.writeGame(g, false); }
        if (w.s.size() > 3000) continue;
        seeds.push_back({ w.s, 2, -1 }); made++;
    }
    for (const char* p : { "e4 e5 Nf3 Nc6 Bb5 (Bc4 Bc5 c3) (Nc3 Nf6) a6 Ba4", "[Event \"a \\\"quoted\\\" name\"]\n[White \"x\" y \"z\"]\n\n1. e4 {c} e5 $1 2. Nf3! Nc6?? *\n",
                           "[FEN \"4k3/8/8/8/8/8/8/4K2R w K - 0 1\"]\n1. O-O Ke7 2. Rf7+ 1-0\n", "1. e4 (1. d4 d5 (1... Nf6 2. c4 (2. Nf3 g6 (2... e6))) 2. c4) e5 1/2-1/2",
                           "%escaped line\n[Round \"1\"]\n; rest of line comment\n1.e4 e5 ; another\n2.Nf3 *" })
        seeds.push_back({ p, 2, -1 });
    // numbers
    for (const char* n : { "0", "1", "-1", "42", "2147483647", "-2147483648", "1.5", "-0.25", "1e10", "0x10", "ff", "DEADBEEF", " 12", "12 ", "12abc", "+7", "", "1 2 3", "wtime 1000 btime 2000 movestogo 40" })
        seeds.push_back({ n, 3, -1 });
}

static int runGarbage(uint64_t seed, long long ninputs) {
    Rng r(seed);
    std::vector<Seed> seeds; std::vector<Position> pool; std::vector<ref::Pos> poolRef, startPool;
    gCountWriterStats = false;
    buildSeeds(r, seeds, pool, poolRef, startPool);
    gPool = &pool; gPoolRef = &poolRef;
    rep.stat["max_seed_corpus_items"] = (long long)seeds.size();       // per process (max_ keys are merged with max)
    rep.stat["max_move_text_positions"] = (long long)pool.size();
    Mutator mu(r, seeds);
    std::vector<size_t> byType[4];
    for (size_t i = 0; i < seeds.size(); i++) byType[seeds[i].type].push_back(i);
    for (long long n = 0; n < ninputs; n++) {
        if ((n & 127) == 0) alarm(WATCHDOG_S);
        std::string s; int type = -1, home = -1; std::string src;
        mu.kinds.clear();
        int c = r.below(100);
        if (c < 78) {
            int wantType = (const int[]){ 0, 0, 0, 1, 1, 2, 2, 2, 2, 3 }[r.below(10)];   // 30% FEN, 20% move text, 40% PGN, 10% numbers
            const std::vector<size_t>& ofType = byType[wantType];
            const Seed& sd = seeds[ofType[(size_t)r.below((int)ofType.size())]];
            s = sd.text; type = sd.type; home = sd.homePos; src = typeNames[type];
            int nm = c < 3 ? 0 : c < 45 ? 1 : r.range(2, 6);
            if (nm == 0) mu.kinds.push_back("unmodified");
            for (int i = 0; i < nm; i++) mu.one(s, type);
        } else if (c < 90) {
            src = "random_bytes";
            int lc = r.below(100);
            size_t len = lc < 30 ? (size_t)r.range(0, 16) : lc < 60 ? (size_t)r.range(17, 128) : lc < 85 ? (size_t)r.range(129, 1024) : (size_t)r.range(1025, 4096);
            int flavour = r.below(3);   // all bytes / printable ASCII / no NUL
            for (size_t i = 0; i < len; i++) s += (char)(flavour == 0 ? r.below(256) : flavour == 1 ? r.range(0x20, 0x7e) : r.range(1, 255));
            mu.kinds.push_back("pure_random");
        } else {
            src = "random_tokens";
            type = r.below(4);
            int nt = r.chance(70) ? r.range(1, 12) : r.range(13, 400);
            for (int i = 0; i < nt && s.size() < MAXLEN; i++) {
                int w = r.below(10);
                if (w < 5) s += dict()[r.below((int)dict().size())];
                else if (w < 8) s += alphabets[type][r.below((int)strlen(alphabets[type]))];
                else { const Seed& sd = seeds[r.below((int)seeds.size())]; if (sd.text.size() < 200) s += sd.text; }
                if (r.chance(60)) s += ' ';
            }
            Mutator::cap(s);
            mu.kinds.push_back("random_tokens");
        }
        std::string k; for (auto& x : mu.kinds) { if (!k.empty()) k += "+"; k += x; }
        setCrumb("garbage seed " + std::to_string(seed) + " input " + std::to_string(n) + " src " + src + " kinds " + k + " len " + std::to_string(s.size()) + " bytes " + esc(s));
        rep.add("inputs");
        rep.add("bytes", (long long)s.size());
        rep.add("src_" + src);
        { std::set<std::string> u(mu.kinds.begin(), mu.kinds.end()); for (auto& x : u) rep.add("kind_" + x); }
        rep.add(s.size() <= 16 ? "len_le16" : s.size() <= 128 ? "len_le128" : s.size() <= 1024 ? "len_le1024" : "len_le4096");
        rep.stat["max_len"] = std::max<long long>(rep.stat["max_len"], (long long)s.size());
        if (s.find('\0') != std::string::npos) rep.add("inputs_with_nul");
        for (unsigned char ch : s) if (ch >= 0x80) { rep.add("inputs_with_high_bytes"); break; }
        if (rep.distinct.insert(fnv(s)).second == false) rep.add("duplicate_inputs");
        { static long long tPrev = nowUs(); long long t = nowUs(); rep.stat["time_us_generate"] += t - tPrev; feedAll(s, T_ALL, type == 1 ? home : -1); tPrev = nowUs(); }
        if (n % 9973 == 17) rep.sample(src + " " + k + ": " + esc(s.substr(0, 160)));
    }
    return 0;
}

static int runOne(const std::string& ep, const std::string& escaped, uint64_t seed) {
    std::string s;
    if (!unesc(escaped, s)) { fprintf(stderr, "bad escape sequence in input\n"); return 2; }
    Rng r(seed);   // the stringToMove position pool is the one of `garbage <seed>`
    std::vector<Seed> seeds; std::vector<Position> pool; std::vector<ref::Pos> poolRef, startPool;
    gCountWriterStats = false;
    buildSeeds(r, seeds, pool, poolRef, startPool);
    gPool = &pool; gPoolRef = &poolRef;
    int t = ep == "fen" ? T_FEN : ep == "move" ? T_MOVE : ep == "uci" ? T_UCI : ep == "pgn" ? T_PGN : ep == "num" ? T_NUM : ep == "all" ? T_ALL : 0;
    if (!t) { fprintf(stderr, "unknown entry point %s\n", ep.c_str()); return 2; }
    setCrumb("one " + ep + " bytes " + esc(s));
    alarm(WATCHDOG_S);
    rep.add("inputs");
    if (t & T_MOVE) { // replay in every pool position
        for (size_t i = 0; i < pool.size(); i++) feedAll(s, T_MOVE, (int)i);
        t &= ~T_MOVE;
    }
    feedAll(s, t, -1);
    return 0;
}

int main(int argc, char** argv) {
    if (argc < 2) { fprintf(stderr, "usage: h_pgn pgn|pgn-neg|garbage <seed> <n> [hashfile] | one <entry> <escaped> | show <seed> <n>\n"); return 2; }
    requireSelfTest();
    ComputerPlayer::initEngine();
    signal(SIGALRM, onAlarm);
    // The PGN reader prints a board on every invalid move; sanitizers and the crumb use fd 2 directly.
    // Never destroyed: std::cerr is flushed after static destructors ran.
    std::cerr.rdbuf(new NullBuf);
    std::string mode = argv[1];
    int rc = 0;
    const char* hashFile = argc > 4 ? argv[4] : nullptr;
    if (mode == "one") {
        if (argc < 4) { fprintf(stderr, "one <entry> <escaped>\n"); return 2; }
        rc = runOne(argv[2], argv[3], (uint64_t)argLL(argc, argv, 4, 1));
        hashFile = nullptr;
    } else {
        uint64_t seed = (uint64_t)argLL(argc, argv, 2, 1);
        long long n = argLL(argc, argv, 3, 1000);
        if (mode == "pgn") rc = runPgn(seed, n, false, false);
        else if (mode == "pgn-neg") rc = runPgn(seed, n, true, false);
        else if (mode == "show") rc = runPgn(seed, n, false, true);
        else if (mode == "garbage") rc = runGarbage(seed, n);
        else if (mode == "selftest-hang") { setCrumb("selftest-hang: deliberate endless loop"); alarm(2); volatile unsigned long x = 0; for (;;) x++; }
        else { fprintf(stderr, "unknown mode\n"); return 2; }
    }
    alarm(0);
    rep.finish(hashFile);
    return rc;
}
