// h_fuzz: coverage-guided (libFuzzer) companion of `h_pgn garbage` for C17.
// The first byte selects the entry point, the rest is the text:
//   0 FEN (TextIO::readFEN + use of the accepted position), 1 move text (TextIO::stringToMove in a few positions),
//   2 UCI move text (TextIO::uciStringToMove), 3 PGN (PgnReader::readPGN loop + walk of accepted games),
//   4 number helpers (str2Num family, splitString, trim), anything else: all of them.
// Outcome of an input must be a value or a ChessParseError; everything else (sanitizer report, abort, other
// exception, libFuzzer timeout) stops the fuzzer with the input saved as crash-*/timeout-* artifact.
// Build: VERIF_BUILD_FUZZ=1 python3 -m vlib.build fuzz/h_fuzz      Run: build/fuzz/h_fuzz -runs=20000 -max_len=4096 [corpus]
#include "position.hpp"
#include "moveGen.hpp"
#include "textio.hpp"
#include "computerPlayer.hpp"
#include "gametree.hpp"
#include "util.hpp"
#include <cstdint>
#include <cstdio>
#include <cstdlib>
#include <iostream>
#include <map>
#include <set>
#include <sstream>
#include <string>
#include <vector>

namespace {

struct NullBuf : std::streambuf {
    int overflow(int c) override { return c == EOF ? 0 : c; }
    std::streamsize xsputn(const char*, std::streamsize n) override { return n; }
};

std::vector<Position>* pool;

void init() {
    static bool done = false;
    if (done) return;
    done = true;
    ComputerPlayer::initEngine();
    std::cerr.rdbuf(new NullBuf);   // PgnReader prints a board for every invalid move
    pool = new std::vector<Position>;
    for (const char* f : { "rnbqkbnr/pppppppp/8/8/8/8/PPPPPPPP/RNBQKBNR w KQkq - 0 1",
                           "r3k2r/p1ppqpb1/bn2pnp1/3PN3/1p2P3/2N2Q1p/PPPBBPPP/R3K2R w KQkq - 0 1",
                           "r3k2r/Pppp1ppp/1b3nbN/nP6/BBP1P3/q4N2/Pp1P2PP/R2Q1RK1 w kq - 0 1",
                           "8/1PPPPPP1/k7/8/8/7K/1pppppp1/8 w - - 0 1",
                           "8/8/8/8/k2Pp2Q/8/8/3K4 b - d3 0 1",
                           "4k3/8/8/2N1N3/8/2N1N3/8/4K3 w - - 0 1" })
        pool->push_back(TextIO::readFEN(f));
}

void fail(const char* what, const std::exception* e) {
    fprintf(stderr, "h_fuzz: %s%s%s\n", what, e ? ": " : "", e ? e->what() : "");
    abort();
}

void useFen(const std::string& s) {
    Position pos;
    try { pos = TextIO::readFEN(s); } catch (const ChessParseError&) { return; }
    MoveList ml;
    MoveGen::pseudoLegalMoves(pos, ml);
    MoveGen::removeIllegal(pos, ml);
    volatile U64 sink = pos.zobristHash() ^ pos.historyHash() ^ pos.bookHash() ^ (U64)pos.materialId();
    (void)sink;
    std::string fen2 = TextIO::toFEN(pos);
    Position back;
    try { back = TextIO::readFEN(fen2); } catch (const ChessParseError& e) { fail("accepted FEN is rejected when written back", &e); }
    if (!(back == pos)) fail("accepted FEN does not round trip", nullptr);
    for (int i = 0; i < ml.size; i++) {
        UndoInfo ui;
        pos.makeMove(ml[i], ui);
        pos.unMakeMove(ml[i], ui);
    }
    int step = ml.size <= 4 ? 1 : ml.size / 4;
    for (int i = 0; i < ml.size; i += step) {
        Move m = ml[i];
        for (int lf = 0; lf < 2; lf++) {
            Move b = TextIO::stringToMove(pos, TextIO::moveToString(pos, m, lf == 1));
            if (!(b == m)) fail("move text of a legal move in an accepted position does not parse back", nullptr);
        }
    }
}

void useMove(const std::string& s) {
    for (Position& pos : *pool) {
        Position before(pos);
        Move m;
        try { m = TextIO::stringToMove(pos, s); } catch (const ChessParseError&) { continue; }
        if (!m.isEmpty()) (void)TextIO::moveToString(pos, m, false);
        if (!(pos == before)) fail("stringToMove modified the position", nullptr);
    }
}

void useUci(const std::string& s) {
    Move m;
    try { m = TextIO::uciStringToMove(s); } catch (const ChessParseError&) { return; }
    if (!m.isEmpty()) (void)TextIO::moveToUCIString(m);
}

void walk(GameNode& gn, long& nodes) {
    int n = gn.nChildren();
    for (int i = 0; i < n; i++) {
        gn.goForward(i);
        nodes++;
        (void)gn.getComment();
        walk(gn, nodes);
        gn.goBack();
    }
}

void usePgn(const std::string& s) {
    std::istringstream is(s);
    PgnReader rd(is);
    size_t games = 0;
    try {
        while (true) {
            GameTree gt;
            if (!rd.readPGN(gt)) break;
            if (++games > s.size() + 4) fail("PgnReader does not advance", nullptr);
            std::map<std::string, std::string> hdr; gt.getHeaders(hdr);
            (void)gt.getResult();
            GameNode gn = gt.getRootNode();
            long nodes = 0;
            walk(gn, nodes);
            std::string str; std::set<GameTree::RangeToNode> ranges;
            gt.getGameTreeString(str, ranges);
        }
    } catch (const ChessParseError&) {
    }
}

void useNum(const std::string& s) {
    { int v = 0; (void)str2Num(s, v); }
    { double v = 0; (void)str2Num(s, v); }
    { U64 v = 0; (void)str2Num(s, v); }
    { S64 v = 0; (void)str2Num(s, v); }
    { U64 v = 0; (void)hexStr2Num(s, v); }
    std::vector<std::string> w; splitString(s, w);
    for (size_t i = 0; i < w.size() && i < 8; i++) { int v; (void)str2Num(w[i], v); }
    (void)splitLines(s); (void)trim(s); (void)toLowerCase(s);
}

} // namespace

extern "C" int LLVMFuzzerTestOneInput(const uint8_t* data, size_t size) {
    init();
    if (size == 0 || size > 4097) return 0;
    int sel = data[0];
    std::string s((const char*)data + 1, size - 1);
    try {
        if (sel == 0 || sel > 4) useFen(s);
        if (sel == 1 || sel > 4) useMove(s);
        if (sel == 2 || sel > 4) useUci(s);
        if (sel == 3 || sel > 4) usePgn(s);
        if (sel == 4 || sel > 4) useNum(s);
    } catch (const std::exception& e) {
        fail("exception other than ChessParseError escaped", &e);
    } catch (...) {
        fail("unknown exception escaped", nullptr);
    }
    return 0;
}
