// h_book: opening book probes (C18).   h_book <seed> <nfiles> <tmpdir> [hashfile]
// Built-in book along its own lines and on random positions; polyglot files written by the harness
// (well formed, and damaged: truncated, byte flips, shuffled, all-equal keys, empty, missing, directory).
#include "hcommon.hpp"
#include "vposgen.hpp"
#include "book.hpp"
#include "polyglot.hpp"
#include "parameters.hpp"
#include <algorithm>
#include <fstream>
#include <sstream>
#include <sys/stat.h>

using namespace hc;
using posgen::Rng;
static Report rep;
static bool wellFormedAllLegal = false;   // true while the current file has no noise entries

struct Ent { U64 key; U16 move; U16 weight; };

static void writeBook(const std::string& fn, const std::vector<Ent>& ents, size_t truncateTo = (size_t)-1) {
    std::string data;
    for (const Ent& e : ents) {
        PolyglotBook::PGEntry pe;
        PolyglotBook::serialize(e.key, e.move, e.weight, pe);
        data.append((const char*)pe.data, 16);
    }
    if (truncateTo != (size_t)-1 && truncateTo < data.size()) data.resize(truncateTo);
    std::ofstream os(fn, std::ios::binary | std::ios::trunc);
    os.write(data.data(), data.size());
}

static bool legalIn(const ref::Pos& R, const Move& m) {
    std::vector<ref::Mv> l; ref::genLegal(R, l);
    ref::Mv rm = toRef(m);
    return std::find(l.begin(), l.end(), rm) != l.end();
}

// probe must return empty or a legal move
static Move probe(Position& pos, const ref::Pos& R, const std::string& what) {
    setCrumb(what + " probe " + ref::toFEN(R));
    Book book(false);
    Move m;
    Position before(pos);
    book.getBookMove(pos, m);
    rep.add("probes");
    if (!(pos == before)) rep.viol("probe-modified-position", what + " " + ref::toFEN(R));
    if (!m.isEmpty()) {
        rep.add("probes_with_move");
        if (!legalIn(R, m)) rep.viol("illegal-book-move", what + " position " + ref::toFEN(R) + " move " + TextIO::moveToUCIString(m));
    }
    // the console listing of all book moves (ComputerPlayer verbose mode) formats every entry with moveToString;
    // it is exercised only where all entries are legal moves (built-in book, well-formed files): on garbage entries
    // of a damaged file moveToString/givesCheck need not terminate, and that listing is not the probe path of C18.
    if ((rep.stat["probes"] & 15) == 0 && (what.compare(0, 7, "builtin") == 0 || (what.compare(0, 10, "wellformed") == 0 && what.find("unrelated") == std::string::npos && wellFormedAllLegal)))
        { std::string s = book.getAllBookMoves(pos); (void)s; rep.add("listings"); }
    return m;
}

int main(int argc, char** argv) {
    requireSelfTest();
    ComputerPlayer::initEngine();
    uint64_t seed = (uint64_t)argLL(argc, argv, 1, 1);
    long long nfiles = argLL(argc, argv, 2, 10);
    std::string tmpdir = argc > 3 ? argv[3] : "/verif/build/tmp";
    std::string fn = tmpdir + "/book_" + std::to_string((long long)getpid()) + ".bin";
    Rng r(seed);
    std::vector<ref::Pos> tricky;
    for (auto& f : posgen::trickyFens()) { ref::Pos p; ref::parseFEN(f, p); tricky.push_back(p); }

    // ---- built-in book -------------------------------------------------------------------------
    UciParams::bookFile->set("");
    for (int g = 0; g < 300; g++) {
        ref::Pos R = tricky[0];
        Position pos; readFEN(ref::toFEN(R), pos);
        for (int ply = 0; ply < 60; ply++) {
            Move m = probe(pos, R, "builtin");
            if (m.isEmpty()) {
                if (ply == 0) rep.viol("builtin-book-empty-at-start", "no book move in the initial position");
                break;
            }
            rep.add("builtin_line_moves");
            UndoInfo ui; pos.makeMove(m, ui); TextIO::fixupEPSquare(pos);
            R = ref::make(R, toRef(m)); if (!ref::epLegal(R)) R.ep = -1;
        }
    }
    for (int i = 0; i < 3000; i++) {
        ref::Pos R = r.chance(50) ? posgen::synthetic(r, r.below(posgen::T_NTEMPLATES)) : posgen::randomGame(r, tricky[r.below((int)tricky.size())], r.range(1, 30), posgen::UNIFORM).pos.back();
        if (!ref::epLegal(R)) R.ep = -1;
        Position pos; if (!readFEN(ref::toFEN(R), pos)) continue;
        probe(pos, R, "builtin-random");
    }

    // ---- polyglot files ------------------------------------------------------------------------
    for (long long fi = 0; fi < nfiles; fi++) {
        // positions of this book
        struct BP { ref::Pos R; std::vector<std::pair<ref::Mv, int>> moves; U64 key; };
        std::vector<BP> bps;
        int npos = r.range(1, 40);
        for (int i = 0; i < npos; i++) {
            ref::Pos R;
            int k = r.below(10);
            if (k < 5) R = posgen::randomGame(r, tricky[0], r.range(0, 30), posgen::TACTICAL).pos.back();
            else if (k < 8) R = posgen::randomGame(r, tricky[r.below((int)tricky.size())], r.range(0, 20), posgen::TACTICAL).pos.back();
            else R = posgen::synthetic(r, r.chance(50) ? posgen::T_CASTLE : posgen::T_PROMO);
            if (!ref::epLegal(R)) R.ep = -1;
            Position pos; if (!readFEN(ref::toFEN(R), pos)) continue;
            std::vector<ref::Mv> l; ref::genLegal(R, l);
            if (l.empty()) continue;
            BP bp; bp.R = R; bp.key = PolyglotBook::getHashKey(pos);
            bool dupKey = false; for (auto& o : bps) if (o.key == bp.key) dupKey = true;
            if (dupKey) continue;
            int nm = r.range(1, std::min<int>(6, (int)l.size()));
            std::vector<ref::Mv> ch = l; for (int j = (int)ch.size() - 1; j > 0; j--) std::swap(ch[j], ch[r.below(j + 1)]);
            // prefer castling/promotion moves when present
            std::stable_partition(ch.begin(), ch.end(), [&](const ref::Mv& m) { return ref::isCastle(R, m) || m.promo; });
            for (int j = 0; j < nm; j++) {
                int wgt = r.chance(15) ? 0 : (r.chance(20) ? 65535 : r.range(1, 1000));
                bp.moves.push_back(std::make_pair(ch[j], wgt));
            }
            bps.push_back(bp);
        }
        if (bps.empty()) continue;
        std::vector<Ent> ents;
        for (auto& bp : bps) {
            Position pos; readFEN(ref::toFEN(bp.R), pos);
            for (auto& mw : bp.moves) {
                U16 pm = PolyglotBook::getPGMove(pos, toEng(mw.first));
                // the other castling encoding (king moves two squares) is accepted as well
                if (ref::isCastle(bp.R, mw.first) && r.chance(50)) {
                    int prom = 0; pm = (U16)((mw.first.to & 7) | ((mw.first.to >> 3) << 3) | ((mw.first.from & 7) << 6) | ((mw.first.from >> 3) << 9) | (prom << 12));
                    rep.add("castling_entries_king_two_squares");
                } else if (ref::isCastle(bp.R, mw.first)) rep.add("castling_entries_king_takes_rook");
                if (mw.first.promo) rep.add("promotion_entries");
                if (mw.second == 0) rep.add("zero_weight_entries");
                ents.push_back({bp.key, pm, (U16)mw.second});
            }
        }
        // entries for positions that are not probed (noise)
        int noise = r.chance(30) ? 0 : r.range(0, 200);
        wellFormedAllLegal = noise == 0;
        for (int i = 0; i < noise; i++) ents.push_back({r.next(), (U16)r.below(65536), (U16)r.below(65536)});
        std::stable_sort(ents.begin(), ents.end(), [](const Ent& a, const Ent& b) { return a.key < b.key; });
        rep.add("files_wellformed");
        writeBook(fn, ents);
        UciParams::bookFile->set(fn);
        std::string what = "wellformed file " + std::to_string(fi) + " (" + std::to_string(ents.size()) + " entries)";
        // (a) only stored moves; (b) frequency on one position of the book
        for (size_t bi = 0; bi < bps.size(); bi++) {
            BP& bp = bps[bi];
            Position pos; readFEN(ref::toFEN(bp.R), pos);
            int K = (bi == 0) ? 2000 : 3;
            std::map<std::string, int> seen;
            long long totalW = 0; for (auto& mw : bp.moves) totalW += mw.second;
            for (int k = 0; k < K; k++) {
                Move m = probe(pos, bp.R, what);
                if (m.isEmpty()) { if (totalW > 0) rep.viol("wellformed-book-returned-no-move", what + " " + ref::toFEN(bp.R)); break; }
                bool stored = false;
                for (auto& mw : bp.moves) if (toEng(mw.first) == m && mw.second > 0) stored = true;
                if (!stored) rep.viol("move-not-stored-under-key", what + " " + ref::toFEN(bp.R) + " move " + TextIO::moveToUCIString(m));
                seen[TextIO::moveToUCIString(m)]++;
            }
            if (K == 2000 && totalW > 0) {
                rep.add("frequency_positions");
                for (auto& mw : bp.moves) {
                    double share = (double)mw.second / (double)totalW;
                    if (share >= 0.02) {
                        rep.add("frequency_moves_asserted");
                        if (seen[ref::mvStr(mw.first)] == 0)
                            rep.viol("stored-move-never-returned", what + " " + ref::toFEN(bp.R) + " move " + ref::mvStr(mw.first) + " share " + std::to_string(share) + " in 2000 probes");
                    } else if (mw.second > 0) rep.add("frequency_moves_not_asserted_small_share");
                }
            }
        }
        // unrelated positions with a well-formed book
        for (int i = 0; i < 20; i++) {
            ref::Pos R = posgen::synthetic(r, r.below(posgen::T_NTEMPLATES));
            Position pos; if (!readFEN(ref::toFEN(R), pos)) continue;
            probe(pos, R, what + " unrelated");
        }
        // ---- damaged versions ----
        auto probeAll = [&](const std::string& w) {
            for (auto& bp : bps) { Position pos; readFEN(ref::toFEN(bp.R), pos); probe(pos, bp.R, w); }
            for (int i = 0; i < 5; i++) { ref::Pos R = posgen::synthetic(r, r.below(posgen::T_NTEMPLATES)); Position pos; if (readFEN(ref::toFEN(R), pos)) probe(pos, R, w); }
            rep.add("files_damaged");
        };
        size_t total = ents.size() * 16;
        for (int t = 0; t < 16; t++) {     // truncation at every residue mod 16
            size_t len = total > 16 ? (size_t)r.below((int)(total / 16)) * 16 + t : (size_t)t;
            writeBook(fn, ents, len);
            probeAll("truncated to " + std::to_string(len) + " bytes (file " + std::to_string(fi) + ")");
        }
        for (int t = 0; t < 6; t++) {      // byte flips
            std::vector<Ent> e2 = ents;
            int nflip = r.range(1, 20);
            for (int k = 0; k < nflip; k++) { Ent& e = e2[r.below((int)e2.size())]; int w = r.below(3); if (w == 0) e.key ^= 1ULL << r.below(64); else if (w == 1) e.move ^= (U16)(1 << r.below(16)); else e.weight ^= (U16)(1 << r.below(16)); }
            writeBook(fn, e2);
            probeAll("bit flips (file " + std::to_string(fi) + ")");
        }
        {   // shuffled order
            std::vector<Ent> e2 = ents; for (int j = (int)e2.size() - 1; j > 0; j--) std::swap(e2[j], e2[r.below(j + 1)]);
            writeBook(fn, e2); probeAll("shuffled (file " + std::to_string(fi) + ")");
        }
        {   // all keys equal to the key of a book position: every entry is offered for that position
            std::vector<Ent> e2 = ents; for (auto& e : e2) e.key = bps[0].key;
            writeBook(fn, e2); probeAll("all-equal keys (file " + std::to_string(fi) + ")");
        }
        if (fi % 8 == 0) {   // many heavy entries of one legal move under one key
            std::vector<Ent> e2; Position pos; readFEN(ref::toFEN(bps[0].R), pos);
            U16 pm = PolyglotBook::getPGMove(pos, toEng(bps[0].moves[0].first));
            int n = fi % 16 == 0 ? 40000 : 3000;
            for (int k = 0; k < n; k++) e2.push_back({bps[0].key, pm, 65535});
            writeBook(fn, e2); probeAll("one key, " + std::to_string(n) + " entries of weight 65535 (file " + std::to_string(fi) + ")");
        }
        { writeBook(fn, {}); probeAll("empty file"); }
        { std::remove(fn.c_str()); probeAll("missing file"); }
        { UciParams::bookFile->set(tmpdir); probeAll("directory as book file"); UciParams::bookFile->set(fn); }
        rep.distinct.insert(fnv(std::to_string(seed) + ":" + std::to_string(fi)));
        if (fi % 37 == 1) rep.sample(what + ", first position " + ref::toFEN(bps[0].R));
    }
    std::remove(fn.c_str());
    UciParams::bookFile->set("");
    rep.finish(argc > 4 ? argv[4] : nullptr);
    return 0;
}
