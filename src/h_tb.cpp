// h_tb: on-demand tablebase monitor (C12; produces verified DTM dumps used by C13 and C04).
//   h_tb sweep <CLASS> <threads> [dumpfile]   every placement x both sides through probeDTM (both storage back
//                                             ends), Bellman-equation check with an independent mini rules engine
//   h_tb solve <CLASS> <threads> <dumpfile>   independent retrograde solution (mini rules engine only), self-checked, written as dump
//   h_tb bigtt <CLASS> <MB> <seed>            table generated inside a transposition table of <MB> megabytes, hash traffic, all probes vs private table
//   h_tb abort <CLASS> <seed> <n> <dumpfile>  aborted generations inside a TranspositionTable, then probes vs dump
//   h_tb scope <seed> <n>                     out-of-scope positions must be "not found"
//   h_tb query <dumpfile>...                  line server: "<fen>" -> "win N" | "loss N" | "draw" | "unknown"
// CLASS: white men then black men, e.g. KQKR, KRK, KBNK, KKQ (black queen).
#include "tbgen.hpp"
#include "transpositionTable.hpp"
#include "position.hpp"
#include "textio.hpp"
#include "computerPlayer.hpp"
#include "constants.hpp"
#include "hcommon.hpp"
#include <atomic>
#include <thread>
#include <mutex>
#include <chrono>
#include <cstring>
#include <iostream>
#include <fstream>
#include <functional>

using namespace hc;
static Report rep;
static std::mutex repMutex;

// ---------------------------------------------------------------------------------------------
// material description

struct Man { int piece; bool white; char kind; };      // piece: engine piece code
struct Mat {
    std::string name;
    std::vector<Man> men;       // men[0] = white king, then white men, black king, black men
    int bkIdx = 0;
    PieceCount pc{0, 0, 0, 0, 0, 0, 0, 0};
};

static bool parseClass(const std::string& s, Mat& m) {
    m = Mat(); m.name = s;
    if (s.empty() || s[0] != 'K') return false;
    size_t k2 = s.find('K', 1);
    if (k2 == std::string::npos) return false;
    auto code = [](char c, bool w) -> int {
        switch (c) { case 'K': return w ? Piece::WKING : Piece::BKING; case 'Q': return w ? Piece::WQUEEN : Piece::BQUEEN;
                     case 'R': return w ? Piece::WROOK : Piece::BROOK; case 'B': return w ? Piece::WBISHOP : Piece::BBISHOP;
                     case 'N': return w ? Piece::WKNIGHT : Piece::BKNIGHT; }
        return -1; };
    for (size_t i = 0; i < s.size(); i++) {
        bool w = i < k2;
        int c = code(s[i], w);
        if (c < 0) return false;
        if (i == k2) m.bkIdx = (int)m.men.size();
        m.men.push_back({c, w, s[i]});
        if (s[i] == 'Q') (w ? m.pc.nwq : m.pc.nbq)++;
        if (s[i] == 'R') (w ? m.pc.nwr : m.pc.nbr)++;
        if (s[i] == 'B') (w ? m.pc.nwb : m.pc.nbb)++;
        if (s[i] == 'N') (w ? m.pc.nwn : m.pc.nbn)++;
    }
    return m.men.size() >= 3 && m.men.size() <= 4;
}

// ---------------------------------------------------------------------------------------------
// independent mini rules engine for <= 4 pawnless men (no engine code, no refchess code)

static const int CAP = 64;  // "captured" square value

struct Mini {
    const Mat* mat;
    int sq[4];
    int board[64];      // man index or -1
    int n;
    void set(const Mat& m, const int* s) {
        mat = &m; n = (int)m.men.size();
        for (int i = 0; i < 64; i++) board[i] = -1;
        for (int i = 0; i < n; i++) { sq[i] = s[i]; if (s[i] != CAP) board[s[i]] = i; }
    }
    static bool adjacent(int a, int b) { int dx = (a & 7) - (b & 7), dy = (a >> 3) - (b >> 3); return (dx || dy) && dx >= -1 && dx <= 1 && dy >= -1 && dy <= 1; }
    bool clearLine(int a, int b) const { // squares strictly between a and b empty; a,b aligned
        int dx = ((b & 7) > (a & 7)) - ((b & 7) < (a & 7)), dy = ((b >> 3) > (a >> 3)) - ((b >> 3) < (a >> 3));
        int x = (a & 7) + dx, y = (a >> 3) + dy;
        while (x != (b & 7) || y != (b >> 3)) { if (board[y * 8 + x] != -1) return false; x += dx; y += dy; }
        return true;
    }
    bool attacks(int i, int t) const {
        int s = sq[i];
        if (s == CAP || s == t) return false;
        int dx = (t & 7) - (s & 7), dy = (t >> 3) - (s >> 3);
        int ax = dx < 0 ? -dx : dx, ay = dy < 0 ? -dy : dy;
        switch (mat->men[i].kind) {
        case 'K': return ax <= 1 && ay <= 1;
        case 'N': return (ax == 1 && ay == 2) || (ax == 2 && ay == 1);
        case 'R': return (dx == 0 || dy == 0) && clearLine(s, t);
        case 'B': return ax == ay && clearLine(s, t);
        case 'Q': return (dx == 0 || dy == 0 || ax == ay) && clearLine(s, t);
        }
        return false;
    }
    bool kingAttacked(bool white) const {
        int k = sq[white ? 0 : mat->bkIdx];
        for (int i = 0; i < n; i++) if (mat->men[i].white != white && attacks(i, k)) return true;
        return false;
    }
    // calls f(manIdx, to, capturedIdx or -1) for every legal move of the side
    template <typename F> void legalMoves(bool white, F f) {
        static const int KD[8][2] = {{1,0},{1,1},{0,1},{-1,1},{-1,0},{-1,-1},{0,-1},{1,-1}};
        static const int ND[8][2] = {{1,2},{2,1},{2,-1},{1,-2},{-1,-2},{-2,-1},{-2,1},{-1,2}};
        for (int i = 0; i < n; i++) {
            if (mat->men[i].white != white || sq[i] == CAP) continue;
            int s = sq[i], x0 = s & 7, y0 = s >> 3;
            auto tryMove = [&](int t) {
                int c = board[t];
                if (c != -1 && mat->men[c].white == white) return;
                if (c != -1 && mat->men[c].kind == 'K') return; // cannot happen in a legal position
                board[s] = -1; board[t] = i; sq[i] = t; if (c != -1) sq[c] = CAP;
                bool ok = !kingAttacked(white);
                board[s] = i; board[t] = c; sq[i] = s; if (c != -1) sq[c] = t;
                if (ok) f(i, t, c);
            };
            char k = mat->men[i].kind;
            if (k == 'K' || k == 'N') {
                const int (*D)[2] = k == 'K' ? KD : ND;
                for (int d = 0; d < 8; d++) { int x = x0 + D[d][0], y = y0 + D[d][1]; if (x >= 0 && x < 8 && y >= 0 && y < 8) tryMove(y * 8 + x); }
            } else {
                for (int d = 0; d < 8; d++) {
                    bool diag = KD[d][0] != 0 && KD[d][1] != 0;
                    if (k == 'R' && diag) continue;
                    if (k == 'B' && !diag) continue;
                    int x = x0 + KD[d][0], y = y0 + KD[d][1];
                    while (x >= 0 && x < 8 && y >= 0 && y < 8) { int t = y * 8 + x; tryMove(t); if (board[t] != -1) break; x += KD[d][0]; y += KD[d][1]; }
                }
            }
        }
    }
};

// ---------------------------------------------------------------------------------------------
// dump

static const int16_t NOTFOUND = 0x7fff, NOTPROBED = 0x7ffe;
// encoding: 0 draw, +n win in n (n>=1), -(n+1) lost in n (n>=0)

struct Dump {
    Mat mat;
    std::vector<int16_t> v;
    size_t index(const int* s, bool wtm) const {
        size_t idx = 0;
        for (int i = (int)mat.men.size() - 1; i >= 0; i--) idx = idx * 65 + (size_t)s[i];
        return idx * 2 + (wtm ? 1 : 0);
    }
    void init(const Mat& m) { mat = m; size_t n = 2; for (size_t i = 0; i < m.men.size(); i++) n *= 65; v.assign(n, NOTPROBED); }
    bool save(const std::string& fn) const {
        std::ofstream os(fn + ".tmp", std::ios::binary);
        os << "VDTM1 " << mat.name << "\n";
        os.write((const char*)v.data(), v.size() * 2);
        os.close();
        return rename((fn + ".tmp").c_str(), fn.c_str()) == 0;
    }
    bool load(const std::string& fn) {
        std::ifstream is(fn, std::ios::binary);
        std::string magic, name; is >> magic >> name; is.get();
        if (magic != "VDTM1" || !parseClass(name, mat)) return false;
        size_t n = 2; for (size_t i = 0; i < mat.men.size(); i++) n *= 65;
        v.resize(n);
        is.read((char*)v.data(), n * 2);
        return (size_t)is.gcount() == n * 2;
    }
};

static int16_t decodeScore(int score) {
    using namespace SearchConst;
    if (score == 0) return 0;
    if (score > 0) return (int16_t)((MATE0 - score) / 2);
    int n = (MATE0 - 1 + score) / 2;     // score = -(MATE0 - 2n - 1)
    return (int16_t)(-(n + 1));
}

static void buildPosition(const Mat& m, const int* s, bool wtm, Position& pos) {
    pos = Position();
    for (size_t i = 0; i < m.men.size(); i++) if (s[i] != CAP) pos.setPiece(Square(s[i]), m.men[i].piece);
    pos.setWhiteMove(wtm);
}

static std::string fenOf(const Mat& m, const int* s, bool wtm) { Position p; buildPosition(m, s, wtm, p); return TextIO::toFEN(p); }

template <typename F> static void parallelFor(int nThreads, int nItems, F f) {
    std::atomic<int> next(0);
    std::vector<std::thread> ts;
    for (int t = 0; t < nThreads; t++) ts.emplace_back([&]() { for (;;) { int i = next++; if (i >= nItems) break; f(i); } });
    for (auto& t : ts) t.join();
}

// enumerate all assignments with men[0] (white king) on wk: kings on board, other men on board or captured, all distinct
template <typename F> static void forPlacements(const Mat& m, int wk, F f) {
    int n = (int)m.men.size();
    int s[4];
    s[0] = wk;
    std::function<void(int)> rec = [&](int i) {
        if (i == n) { f(s); return; }
        bool king = m.men[i].kind == 'K';
        for (int q = 0; q < (king ? 64 : 65); q++) {
            bool clash = false;
            if (q != CAP) for (int j = 0; j < i; j++) if (s[j] == q) clash = true;
            if (clash) continue;
            s[i] = q; rec(i + 1);
        }
    };
    rec(1);
}

template <typename ProbeF>
static void dumpAll(const Mat& m, Dump& d, int threads, ProbeF probe, std::atomic<long long>& nProbed, std::atomic<long long>& nFound) {
    d.init(m);
    parallelFor(threads, 64, [&](int wk) {
        Mini mini; long long p = 0, fnd = 0;
        forPlacements(m, wk, [&](const int* s) {
            mini.set(m, s);
            if (Mini::adjacent(s[0], s[m.bkIdx])) return;       // kings adjacent: illegal for both sides
            for (int wtm = 0; wtm < 2; wtm++) {
                if (mini.kingAttacked(!wtm)) continue;          // side not to move in check: illegal, never probed by the search
                Position pos; buildPosition(m, s, wtm, pos);
                int score = 12345;
                bool found = probe(pos, score);
                p++;
                d.v[d.index(s, wtm)] = found ? decodeScore(score) : NOTFOUND;
                if (found) fnd++;
            }
        });
        nProbed += p; nFound += fnd;
    });
}

// Bellman equations on a dump: every legal placement's value must follow from its successors' values (mini rules engine)
struct BellStats { std::atomic<long long> nChecked{0}, nWin{0}, nLoss{0}, nDraw{0}, nMoves{0}; std::atomic<int> maxWin{0}, maxLoss{0}; };
static void bellmanCheck(const Mat& m, const Dump& d1, const std::string& cls, int threads, BellStats& bs, const char* kind) {
    std::atomic<long long>& nChecked = bs.nChecked; std::atomic<long long>& nWin = bs.nWin; std::atomic<long long>& nLoss = bs.nLoss;
    std::atomic<long long>& nDraw = bs.nDraw; std::atomic<long long>& nMoves = bs.nMoves; std::atomic<int>& maxWin = bs.maxWin; std::atomic<int>& maxLoss = bs.maxLoss;
    parallelFor(threads, 64, [&](int wk) {
        Mini mini; long long chk = 0, w = 0, l = 0, dr = 0, mv = 0; int mw = 0, ml = 0;
        forPlacements(m, wk, [&](const int* s0) {
            if (Mini::adjacent(s0[0], s0[m.bkIdx])) return;
            int s[4]; for (size_t i = 0; i < m.men.size(); i++) s[i] = s0[i];
            mini.set(m, s);
            for (int wtm = 0; wtm < 2; wtm++) {
                if (mini.kingAttacked(!wtm)) continue;
                int16_t val = d1.v[d1.index(s, wtm)];
                chk++;
                if (val == NOTFOUND || val == NOTPROBED) {
                    std::lock_guard<std::mutex> L(repMutex);
                    rep.viol("in-scope-not-found", cls + " " + fenOf(m, s, wtm));
                    continue;
                }
                int nLegal = 0; int bestLoss = 1 << 20; bool anyDraw = false; int maxOppWin = 0; bool childMissing = false;
                mini.legalMoves(wtm, [&](int i, int t, int c) {
                    nLegal++;
                    int cs[4]; for (int j = 0; j < mini.n; j++) cs[j] = mini.sq[j];
                    cs[i] = t; if (c != -1) cs[c] = CAP;
                    int16_t cv = d1.v[d1.index(cs, !wtm)];
                    if (cv == NOTFOUND || cv == NOTPROBED) { childMissing = true; return; }
                    if (cv < 0) bestLoss = std::min(bestLoss, -cv - 1);
                    else if (cv == 0) anyDraw = true;
                    else maxOppWin = std::max(maxOppWin, (int)cv);
                });
                mv += nLegal;
                int16_t expect;
                if (nLegal == 0) expect = mini.kingAttacked(wtm) ? -1 : 0;
                else if (bestLoss < (1 << 20)) expect = (int16_t)(bestLoss + 1);
                else if (anyDraw) expect = 0;
                else expect = (int16_t)(-(maxOppWin + 1));
                if (childMissing || expect != val) {
                    std::lock_guard<std::mutex> L(repMutex);
                    rep.viol(kind, cls + " " + fenOf(m, s, wtm) + " table says " + std::to_string(val) + " equations say " + std::to_string(expect) + (childMissing ? " (child missing)" : "") +
                             "  [encoding: 0 draw, +n win in n, -(n+1) lost in n]");
                }
                if (val > 0) { w++; mw = std::max(mw, (int)val); } else if (val < 0) { l++; ml = std::max(ml, -val - 1); } else dr++;
            }
        });
        nChecked += chk; nWin += w; nLoss += l; nDraw += dr; nMoves += mv;
        int x = maxWin.load(); while (mw > x && !maxWin.compare_exchange_weak(x, mw)) {}
        x = maxLoss.load(); while (ml > x && !maxLoss.compare_exchange_weak(x, ml)) {}
    });
}

static int runSweep(const std::string& cls, int threads, const std::string& dumpFile) {
    Mat m;
    if (!parseClass(cls, m)) { fprintf(stderr, "bad class\n"); return 2; }
    setCrumb("sweep " + cls);
    // back end 1: private vector
    VectorStorage vs;
    TBGenerator<VectorStorage> gen(vs, m.pc);
    RelaxedShared<S64> noLimit(-1);
    if (!gen.generate(noLimit, false)) { rep.viol("generate-failed", cls + " VectorStorage"); rep.finish(); return 0; }
    Dump d1;
    std::atomic<long long> np(0), nf(0);
    dumpAll(m, d1, threads, [&](const Position& pos, int& score) { return gen.probeDTM(pos, 0, score); }, np, nf);
    rep.add("probes_vector", np);
    // back end 2: inside a transposition table, as the search does it
    TranspositionTable tt(1 << 20);     // 16 MB
    {
        int s[4]; int k = 0; for (size_t i = 0; i < m.men.size(); i++) { s[i] = (int)(i * 9 + 1); k++; }
        s[0] = 0; s[m.bkIdx] = 63;
        Position root; buildPosition(m, s, true, root);
        RelaxedShared<S64> nl(-1);
        if (!tt.updateTB(root, nl)) { rep.viol("updateTB-failed", cls); rep.finish(); return 0; }
    }
    Dump d2;
    std::atomic<long long> np2(0), nf2(0);
    dumpAll(m, d2, threads, [&](const Position& pos, int& score) { return tt.probeDTM(pos, 0, score); }, np2, nf2);
    rep.add("probes_tt", np2);
    long long diff = 0;
    for (size_t i = 0; i < d1.v.size(); i++) if (d1.v[i] != d2.v[i]) diff++;
    if (diff) rep.viol("backends-differ", cls + ": " + std::to_string(diff) + " entries differ between VectorStorage and TTStorage");

    BellStats bs;
    bellmanCheck(m, d1, cls, threads, bs, "bellman");
    std::atomic<long long>& nChecked = bs.nChecked; std::atomic<long long>& nWin = bs.nWin; std::atomic<long long>& nLoss = bs.nLoss;
    std::atomic<long long>& nDraw = bs.nDraw; std::atomic<long long>& nMoves = bs.nMoves; std::atomic<int>& maxWin = bs.maxWin; std::atomic<int>& maxLoss = bs.maxLoss;
    rep.add("positions_checked", nChecked); rep.add("wins", nWin); rep.add("losses", nLoss); rep.add("draws", nDraw); rep.add("moves_followed", nMoves);
    rep.stat["max_win_dtm"] = maxWin; rep.stat["max_loss_dtm"] = maxLoss;
    rep.add("classes");
    printf("SAMPLE class %s: %lld legal placements x side checked, %lld wins (max %d) %lld losses (max %d) %lld draws\n", cls.c_str(),
           (long long)nChecked, (long long)nWin, (int)maxWin, (long long)nLoss, (int)maxLoss, (long long)nDraw);
    if (rep.nViol == 0 && !dumpFile.empty()) d1.save(dumpFile);
    rep.finish();
    return 0;
}

// ---------------------------------------------------------------------------------------------
// independent retrograde solver (no engine code): the DTM oracle of C13 and C04. Level-synchronous backward induction from
// the mates over the labelled placement space of the dump (men on board or captured), predecessors by un-moves of the mini
// rules engine; the result is then self-checked with the forward Bellman equations above.

static const int16_t UNK = 0x7ffd;

template <typename F> static void forPreds(const Mat& m, Mini& x, bool wtm, F f) {
    // x: legal placement with side wtm to move; the side !wtm made the last move. f(s[]) for every candidate predecessor
    // placement (side !wtm to move); the caller filters illegal ones through the dump.
    static const int KD[8][2] = {{1,0},{1,1},{0,1},{-1,1},{-1,0},{-1,-1},{0,-1},{1,-1}};
    static const int ND[8][2] = {{1,2},{2,1},{2,-1},{1,-2},{-1,-2},{-2,-1},{-2,1},{-1,2}};
    bool mover = !wtm;
    int n = x.n;
    for (int i = 0; i < n; i++) {
        if (m.men[i].white != mover || x.sq[i] == CAP) continue;
        int t = x.sq[i], x0 = t & 7, y0 = t >> 3;
        auto from = [&](int s) {
            int r[4]; for (int j = 0; j < n; j++) r[j] = x.sq[j];
            r[i] = s; f(r);
            for (int c = 0; c < n; c++) if (m.men[c].white != mover && m.men[c].kind != 'K' && x.sq[c] == CAP) { r[c] = t; f(r); r[c] = CAP; }
        };
        char k = m.men[i].kind;
        if (k == 'K' || k == 'N') {
            const int (*D)[2] = k == 'K' ? KD : ND;
            for (int d = 0; d < 8; d++) { int xx = x0 + D[d][0], yy = y0 + D[d][1]; if (xx >= 0 && xx < 8 && yy >= 0 && yy < 8 && x.board[yy * 8 + xx] == -1) from(yy * 8 + xx); }
        } else {
            for (int d = 0; d < 8; d++) {
                bool diag = KD[d][0] != 0 && KD[d][1] != 0;
                if (k == 'R' && diag) continue;
                if (k == 'B' && !diag) continue;
                int xx = x0 + KD[d][0], yy = y0 + KD[d][1];
                while (xx >= 0 && xx < 8 && yy >= 0 && yy < 8 && x.board[yy * 8 + xx] == -1) { from(yy * 8 + xx); xx += KD[d][0]; yy += KD[d][1]; }
            }
        }
    }
}

static int runSolve(const std::string& cls, int threads, const std::string& dumpFile) {
    Mat m;
    if (!parseClass(cls, m)) { fprintf(stderr, "bad class\n"); return 2; }
    setCrumb("solve " + cls);
    const int n = (int)m.men.size();
    Dump d; d.init(m);
    std::unique_ptr<std::atomic<uint8_t>[]> cnt(new std::atomic<uint8_t>[d.v.size()]);
    std::vector<std::vector<uint32_t>> lost(threads), won(threads);
    std::mutex mu;
    std::vector<uint32_t> L, W;
    auto decode = [&](uint32_t idx, int* s, bool& wtm) { wtm = idx & 1; idx >>= 1; for (int i = 0; i < n; i++) { s[i] = idx % 65; idx /= 65; } };
    // init: legality, mates, stalemates, successor counts
    parallelFor(threads, 64, [&](int wk) {
        Mini mini; std::vector<uint32_t> l0;
        forPlacements(m, wk, [&](const int* s) {
            if (Mini::adjacent(s[0], s[m.bkIdx])) return;
            mini.set(m, s);
            for (int wtm = 0; wtm < 2; wtm++) {
                if (mini.kingAttacked(!wtm)) continue;
                int nLegal = 0; mini.legalMoves(wtm, [&](int, int, int) { nLegal++; });
                size_t idx = d.index(s, wtm);
                if (nLegal == 0) { if (mini.kingAttacked(wtm)) { d.v[idx] = -1; l0.push_back((uint32_t)idx); } else d.v[idx] = 0; }
                else { d.v[idx] = UNK; cnt[idx].store((uint8_t)nLegal, std::memory_order_relaxed); }
            }
        });
        std::lock_guard<std::mutex> G(mu); L.insert(L.end(), l0.begin(), l0.end());
    });
    long long edges = 0; int level = 0;
    while (!L.empty()) {
        level++;
        // wins in `level`: predecessors of positions lost in level-1
        std::atomic<size_t> next(0); std::atomic<long long> e(0);
        W.clear();
        {
            std::vector<std::thread> ts;
            for (int t = 0; t < threads; t++) ts.emplace_back([&]() {
                Mini mini; std::vector<uint32_t> out; long long ee = 0;
                for (;;) { size_t a = next.fetch_add(256); if (a >= L.size()) break;
                    for (size_t q = a; q < std::min(L.size(), a + 256); q++) {
                        int s[4]; bool wtm; decode(L[q], s, wtm); mini.set(m, s);
                        forPreds(m, mini, wtm, [&](const int* r) { size_t idx = d.index(r, !wtm); ee++; int16_t exp = UNK;
                            if (__atomic_compare_exchange_n(&d.v[idx], &exp, (int16_t)level, false, __ATOMIC_RELAXED, __ATOMIC_RELAXED)) out.push_back((uint32_t)idx); });
                    } }
                e += ee; std::lock_guard<std::mutex> G(mu); W.insert(W.end(), out.begin(), out.end());
            });
            for (auto& t : ts) t.join();
        }
        // losses in `level`: every successor is a win for the opponent, the last of them found at this level
        next = 0; L.clear();
        {
            std::vector<std::thread> ts;
            for (int t = 0; t < threads; t++) ts.emplace_back([&]() {
                Mini mini; std::vector<uint32_t> out; long long ee = 0;
                for (;;) { size_t a = next.fetch_add(256); if (a >= W.size()) break;
                    for (size_t q = a; q < std::min(W.size(), a + 256); q++) {
                        int s[4]; bool wtm; decode(W[q], s, wtm); mini.set(m, s);
                        forPreds(m, mini, wtm, [&](const int* r) { size_t idx = d.index(r, !wtm); ee++;
                            if (__atomic_load_n(&d.v[idx], __ATOMIC_RELAXED) != UNK) return;
                            if (cnt[idx].fetch_sub(1, std::memory_order_relaxed) == 1) { __atomic_store_n(&d.v[idx], (int16_t)(-(level + 1)), __ATOMIC_RELAXED); out.push_back((uint32_t)idx); } });
                    } }
                e += ee; std::lock_guard<std::mutex> G(mu); L.insert(L.end(), out.begin(), out.end());
            });
            for (auto& t : ts) t.join();
        }
        edges += e;
        if (W.empty()) break;
    }
    for (auto& v : d.v) if (v == UNK) v = 0;
    rep.add("unmove_edges", edges); rep.stat["levels"] = level;
    // self-check of the oracle with forward moves
    BellStats bs;
    bellmanCheck(m, d, cls, threads, bs, "oracle-selfcheck");
    rep.add("positions_checked", bs.nChecked); rep.add("wins", bs.nWin); rep.add("losses", bs.nLoss); rep.add("draws", bs.nDraw); rep.add("moves_followed", bs.nMoves);
    rep.stat["max_win_dtm"] = bs.maxWin; rep.stat["max_loss_dtm"] = bs.maxLoss; rep.add("classes");
    printf("SAMPLE independent solution of %s: %lld legal placements x side, %lld wins (max %d) %lld losses (max %d) %lld draws, %d levels\n", cls.c_str(),
           (long long)bs.nChecked, (long long)bs.nWin, (int)bs.maxWin, (long long)bs.nLoss, (int)bs.maxLoss, (long long)bs.nDraw, level);
    if (rep.nViol == 0 && !dumpFile.empty()) d.save(dumpFile);
    rep.finish();
    return 0;
}

struct XRng { uint64_t s; uint64_t next() { s ^= s << 13; s ^= s >> 7; s ^= s << 17; return s * 0x2545F4914F6CDD1Dull; } int below(int n) { return (int)(next() % (uint64_t)n); } };

// ---------------------------------------------------------------------------------------------
// table inside a large transposition table (byte offsets beyond 2^32), with hash traffic before the comparison

static int runBigTT(const std::string& cls, long long mb, uint64_t seed) {
    Mat m;
    if (!parseClass(cls, m)) { fprintf(stderr, "bad class\n"); return 2; }
    setCrumb("bigtt " + cls + " " + std::to_string(mb) + " MB");
    VectorStorage vs;
    TBGenerator<VectorStorage> gen(vs, m.pc);
    RelaxedShared<S64> noLimit(-1);
    if (!gen.generate(noLimit, false)) { rep.viol("generate-failed", cls + " VectorStorage"); rep.finish(); return 0; }
    Dump d1; std::atomic<long long> np(0), nf(0);
    dumpAll(m, d1, 16, [&](const Position& pos, int& score) { return gen.probeDTM(pos, 0, score); }, np, nf);
    TranspositionTable tt((U64)mb * 65536);
    {
        int s[4]; for (size_t i = 0; i < m.men.size(); i++) s[i] = (int)(i * 9 + 1);
        s[0] = 0; s[m.bkIdx] = 63;
        Position root; buildPosition(m, s, true, root);
        RelaxedShared<S64> nl(-1);
        if (!tt.updateTB(root, nl)) { rep.viol("updateTB-failed", cls + " in a " + std::to_string(mb) + " MB table"); rep.finish(); return 0; }
    }
    XRng r{seed * 7919 + 13};
    for (long long i = 0; i < 6000000; i++) {
        uint64_t key = r.next();
        if (i & 1) { TranspositionTable::TTEntry e; tt.probe(key, e); }
        else { Move mv(Square(r.below(64)), Square(r.below(64)), 0); mv.setScore(r.below(2000) - 1000); tt.insert(key, mv, 1 + r.below(3), r.below(30), r.below(60), r.below(500) - 250, false); }
    }
    rep.add("hash_operations", 6000000);
    Dump d2; std::atomic<long long> np2(0), nf2(0);
    dumpAll(m, d2, 16, [&](const Position& pos, int& score) { return tt.probeDTM(pos, 0, score); }, np2, nf2);
    long long diff = 0; size_t first = 0;
    for (size_t i = 0; i < d1.v.size(); i++) if (d1.v[i] != d2.v[i]) { if (!diff) first = i; diff++; }
    rep.add("probes_tt_large", np2); rep.stat["large_table_mb"] = mb;
    if (diff) rep.viol("table-inside-large-hash-differs", cls + " in a " + std::to_string(mb) + " MB table after 6e6 hash operations: " + std::to_string(diff) + " of " + std::to_string((long long)np2) +
                       " probes differ from the table in private memory (first at dump index " + std::to_string(first) + ")");
    printf("SAMPLE %s inside a %lld MB transposition table: %lld probes compared after hash traffic, %lld differ\n", cls.c_str(), mb, (long long)np2, diff);
    rep.finish();
    return 0;
}

// ---------------------------------------------------------------------------------------------
// aborted generations (fault injection through the stop flag / time limit the engine itself uses)


static bool randomLegalPlacement(const Mat& m, XRng& r, int* s, bool& wtm, bool allowCaptured) {
    Mini mini;
    for (int t = 0; t < 1000; t++) {
        bool ok = true;
        for (size_t i = 0; i < m.men.size(); i++) {
            s[i] = (allowCaptured && m.men[i].kind != 'K' && r.below(6) == 0) ? CAP : r.below(64);
            for (size_t j = 0; j < i; j++) if (s[i] != CAP && s[j] == s[i]) ok = false;
        }
        if (!ok || Mini::adjacent(s[0], s[m.bkIdx])) continue;
        mini.set(m, s);
        wtm = r.below(2) == 0;
        if (mini.kingAttacked(!wtm)) continue;
        return true;
    }
    return false;
}

static int runAbort(const std::string& cls, uint64_t seed, int n, const std::string& dumpFile) {
    Dump D;
    if (!D.load(dumpFile)) { fprintf(stderr, "cannot load verified dump %s\n", dumpFile.c_str()); return 2; }
    const Mat& m = D.mat;
    XRng r{seed * 0x9E3779B97F4A7C15ull + 77};
    // time an unaborted generation inside a TT
    double genTime;
    {
        TranspositionTable tt(1 << 20);
        int s[4]; bool wtm; randomLegalPlacement(m, r, s, wtm, false);
        Position root; buildPosition(m, s, wtm, root);
        RelaxedShared<S64> nl(-1);
        auto t0 = std::chrono::steady_clock::now();
        if (!tt.updateTB(root, nl)) { rep.viol("updateTB-failed", cls); rep.finish(); return 0; }
        genTime = std::chrono::duration<double>(std::chrono::steady_clock::now() - t0).count();
    }
    rep.stat["gen_time_us"] = (long long)(genTime * 1e6);
    Mat other; parseClass(cls == "KRK" ? "KQK" : "KRK", other);
    Dump DO; bool haveOther = false;
    { std::string dir = dumpFile.substr(0, dumpFile.find_last_of('/') + 1); haveOther = DO.load(dir + other.name + ".dtm"); }
    rep.stat["other_class_dump_loaded"] = haveOther ? 1 : 0;
    for (int k = 0; k < n; k++) {
        TranspositionTable tt(1 << 20);
        std::string what = cls + " case " + std::to_string(k);
        bool prefilled = r.below(3) == 0;
        if (prefilled) {
            int so[4]; bool w; randomLegalPlacement(other, r, so, w, false);
            Position op; buildPosition(other, so, w, op);
            RelaxedShared<S64> nl(-1);
            tt.updateTB(op, nl);
            what += " (other table resident)";
        }
        int s[4]; bool wtm; randomLegalPlacement(m, r, s, wtm, false);
        Position root; buildPosition(m, s, wtm, root);
        // abort point: uniformly over the duration of a generation (covers all phases), by the stop flag (0) or,
        // in a quarter of the cases, by a time limit just above the engine's own threshold
        double frac = (k % 8 == 0) ? 0.0 : (double)r.below(1000) / 1000.0 * 1.05;
        bool byTime = r.below(4) == 0;
        RelaxedShared<S64> limit(byTime ? 3000 : -1);
        std::atomic<bool> done(false);
        std::thread stopper([&]() {
            auto t0 = std::chrono::steady_clock::now();
            while (!done && std::chrono::duration<double>(std::chrono::steady_clock::now() - t0).count() < frac * genTime) std::this_thread::yield();
            limit = 0;
        });
        setCrumb("abort " + what + " frac " + std::to_string(frac));
        bool ok = tt.updateTB(root, limit);
        done = true; stopper.join();
        rep.add(ok ? "generations_completed" : "generations_aborted");
        what += ok ? " completed" : (" aborted at " + std::to_string((int)(frac * 100)) + "% " + (byTime ? "(time limit then stop)" : "(stop flag)"));
        // ordinary hash traffic
        for (int i = 0; i < 20000; i++) {
            U64 key = r.next(); Move mv(Square(r.below(64)), Square(r.below(64)), Piece::EMPTY);
            tt.insert(key, mv, TType::T_EXACT, r.below(20), r.below(30), r.below(200) - 100);
            TranspositionTable::TTEntry e; tt.probe(r.next(), e);
        }
        auto sample = [&](const char* stage, bool mustFind) {
            int bad = 0;
            for (int i = 0; i < 3000 && bad < 3; i++) {
                int q[4]; bool w;
                if (!randomLegalPlacement(m, r, q, w, true)) continue;
                Position pos; buildPosition(m, q, w, pos);
                int score = 0;
                bool found = tt.probeDTM(pos, 0, score);
                int16_t want = D.v[D.index(q, w)];
                rep.add("probes_after_abort");
                if (found && decodeScore(score) != want) { bad++; rep.viol("partial-table-in-use", what + " [" + stage + "] " + TextIO::toFEN(pos) + " probe says " + std::to_string(decodeScore(score)) + " exact value " + std::to_string(want)); }
                else if (!found && mustFind) { bad++; rep.viol("table-missing-after-regeneration", what + " [" + stage + "] " + TextIO::toFEN(pos)); }
            }
        };
        if (!ok) sample("after aborted generation", false);
        else sample("after completed generation", true);
        // the table that was resident before (another material class) must not answer from overwritten bytes either
        if (prefilled && haveOther) {
            int bad = 0;
            for (int i = 0; i < 3000 && bad < 3; i++) {
                int q[4]; bool w;
                if (!randomLegalPlacement(other, r, q, w, true)) continue;
                Position pos; buildPosition(other, q, w, pos);
                int score = 0;
                bool found = tt.probeDTM(pos, 0, score);
                int16_t want = DO.v[DO.index(q, w)];
                rep.add("probes_of_previously_resident_class");
                if (found && decodeScore(score) != want) { bad++; rep.viol("stale-table-of-other-class-in-use", what + " " + TextIO::toFEN(pos) + " probe says " + std::to_string(decodeScore(score)) + " exact value " + std::to_string(want)); }
            }
        }
        // the next search on the same root without limits: must end with a correct table
        RelaxedShared<S64> nl(-1);
        bool ok2 = tt.updateTB(root, nl);
        if (!ok2) rep.viol("updateTB-failed-after-abort", what);
        else sample("after next updateTB", true);
        rep.distinct.insert(fnv(what));
        if (k < 3) rep.sample("abort case: " + what);
    }
    rep.add("abort_cases", n);
    rep.finish();
    return 0;
}

// ---------------------------------------------------------------------------------------------
// scope: positions the table cannot answer must be "not found"

static int runScope(uint64_t seed, int n) {
    XRng r{seed * 0x9E3779B97F4A7C15ull + 5};
    const char* classes[] = { "KQK", "KRKB", "KBNK", "KQKR" };
    for (const char* cn : classes) {
        Mat m; parseClass(cn, m);
        VectorStorage vs; TBGenerator<VectorStorage> gen(vs, m.pc);
        RelaxedShared<S64> nl(-1);
        if (!gen.generate(nl, false)) { rep.viol("generate-failed", cn); continue; }
        static const char* fens[] = {
            "4k3/8/8/8/8/8/8/4K2R w K - 0 1", "4k3/8/8/8/8/8/4P3/4K3 w - - 0 1", "4k3/8/8/8/8/8/8/R3K2R w KQ - 0 1",
            "r3k3/8/8/8/8/8/8/4K3 b q - 0 1", "4k3/p7/8/8/8/8/8/4KQ2 w - - 0 1", "4k3/8/8/8/8/8/8/3QKQ2 w - - 0 1",
            "4kq2/8/8/8/8/8/8/3QKQ2 w - - 0 1", "qqqqk3/8/8/8/8/8/8/4K3 w - - 0 1", "4k3/8/8/8/8/8/8/2BNKN2 w - - 0 1",
        };
        for (const char* f : fens) {
            Position p = TextIO::readFEN(f);
            // in scope only if material is a sub-multiset of the class and no castling rights
            int score;
            bool found = gen.probeDTM(p, 0, score);
            rep.add("scope_probes");
            // compute "in scope" independently
            int cnt[13] = {0}; for (int s = 0; s < 64; s++) cnt[p.getPiece(Square(s))]++;
            bool sub = !p.getCastleMask() && !cnt[Piece::WPAWN] && !cnt[Piece::BPAWN] && cnt[Piece::WQUEEN] <= m.pc.nwq && cnt[Piece::WROOK] <= m.pc.nwr && cnt[Piece::WBISHOP] <= m.pc.nwb &&
                       cnt[Piece::WKNIGHT] <= m.pc.nwn && cnt[Piece::BQUEEN] <= m.pc.nbq && cnt[Piece::BROOK] <= m.pc.nbr && cnt[Piece::BBISHOP] <= m.pc.nbb && cnt[Piece::BKNIGHT] <= m.pc.nbn;
            if (found && !sub) rep.viol("out-of-scope-answered", std::string(cn) + " " + f);
        }
        // random positions with other material
        for (int i = 0; i < n; i++) {
            Position p;
            int wk = r.below(64), bk = r.below(64);
            if (wk == bk || Mini::adjacent(wk, bk)) continue;
            p.setPiece(Square(wk), Piece::WKING); p.setPiece(Square(bk), Piece::BKING);
            int extra = 1 + r.below(4); int cnt[13] = {0};
            for (int e = 0; e < extra; e++) { int s = r.below(64); if (p.getPiece(Square(s)) != Piece::EMPTY) continue; int pc = (int[]){Piece::WQUEEN, Piece::WROOK, Piece::WBISHOP, Piece::WKNIGHT, Piece::WPAWN, Piece::BQUEEN, Piece::BROOK, Piece::BBISHOP, Piece::BKNIGHT, Piece::BPAWN}[r.below(10)];
                if ((pc == Piece::WPAWN || pc == Piece::BPAWN) && (s < 8 || s >= 56)) continue; p.setPiece(Square(s), pc); cnt[pc]++; }
            p.setWhiteMove(r.below(2) == 0);
            bool sub = !cnt[Piece::WPAWN] && !cnt[Piece::BPAWN] && cnt[Piece::WQUEEN] <= m.pc.nwq && cnt[Piece::WROOK] <= m.pc.nwr && cnt[Piece::WBISHOP] <= m.pc.nwb &&
                       cnt[Piece::WKNIGHT] <= m.pc.nwn && cnt[Piece::BQUEEN] <= m.pc.nbq && cnt[Piece::BROOK] <= m.pc.nbr && cnt[Piece::BBISHOP] <= m.pc.nbb && cnt[Piece::BKNIGHT] <= m.pc.nbn;
            int score; bool found = gen.probeDTM(p, 0, score);
            rep.add("scope_probes");
            if (!sub) { rep.add("scope_out_probes"); rep.distinct.insert(fnv(TextIO::toFEN(p) + cn)); }
            if (found && !sub) rep.viol("out-of-scope-answered", std::string(cn) + " " + TextIO::toFEN(p));
        }
    }
    rep.finish();
    return 0;
}

// ---------------------------------------------------------------------------------------------
// query server over verified dumps

static std::string classOf(const Position& p) {
    std::string w = "K", b = "K";
    const char* order = "QRBN";
    int wc[4] = { Piece::WQUEEN, Piece::WROOK, Piece::WBISHOP, Piece::WKNIGHT }, bc[4] = { Piece::BQUEEN, Piece::BROOK, Piece::BBISHOP, Piece::BKNIGHT };
    for (int k = 0; k < 4; k++) { for (int i = BitBoard::bitCount(p.pieceTypeBB((Piece::Type)wc[k])); i > 0; i--) w += order[k]; for (int i = BitBoard::bitCount(p.pieceTypeBB((Piece::Type)bc[k])); i > 0; i--) b += order[k]; }
    return w + b;
}

static int runQuery(int argc, char** argv) {
    std::map<std::string, Dump> dumps;
    for (int i = 2; i < argc; i++) { Dump d; if (d.load(argv[i])) dumps[d.mat.name] = std::move(d); else { fprintf(stderr, "cannot load %s\n", argv[i]); return 2; } }
    std::string line;
    while (std::getline(std::cin, line)) {
        Position p;
        try { p = TextIO::readFEN(line); } catch (const ChessParseError&) { std::cout << "badfen" << std::endl; continue; }
        if (p.getCastleMask() || p.pieceTypeBB(Piece::WPAWN, Piece::BPAWN)) { std::cout << "unknown" << std::endl; continue; }
        std::string cn = classOf(p);
        auto it = dumps.find(cn);
        if (it == dumps.end()) { std::cout << "unknown " << cn << std::endl; continue; }
        const Dump& d = it->second;
        int s[4]; bool used[64] = {false};
        for (size_t i = 0; i < d.mat.men.size(); i++) {
            s[i] = CAP;
            for (int q = 0; q < 64; q++) if (!used[q] && p.getPiece(Square(q)) == d.mat.men[i].piece) { s[i] = q; used[q] = true; break; }
        }
        int16_t v = d.v[d.index(s, p.isWhiteMove())];
        if (v == NOTFOUND || v == NOTPROBED) std::cout << "unknown" << std::endl;
        else if (v == 0) std::cout << "draw" << std::endl;
        else if (v > 0) std::cout << "win " << v << std::endl;
        else std::cout << "loss " << (-v - 1) << std::endl;
    }
    return 0;
}

int main(int argc, char** argv) {
    if (argc < 2) return 2;
    installCrumb();
    ComputerPlayer::initEngine();
    std::string mode = argv[1];
    if (mode == "bigtt" && argc >= 5) return runBigTT(argv[2], atoll(argv[3]), strtoull(argv[4], 0, 10));
    if (mode == "solve" && argc >= 5) return runSolve(argv[2], atoi(argv[3]), argv[4]);
    if (mode == "sweep" && argc >= 4) return runSweep(argv[2], atoi(argv[3]), argc > 4 ? argv[4] : "");
    if (mode == "abort" && argc >= 6) return runAbort(argv[2], strtoull(argv[3], 0, 10), atoi(argv[4]), argv[5]);
    if (mode == "scope" && argc >= 4) return runScope(strtoull(argv[2], 0, 10), atoi(argv[3]));
    if (mode == "query") return runQuery(argc, argv);
    return 2;
}
