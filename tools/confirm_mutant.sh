#!/bin/bash
# Confirm a sub-agent's seeded change in ITS scratch worktree (never /repo):
#   tools/confirm_mutant.sh <worktree> <A|B|C>
# Checks: demo passes on the clean tree; with the change: builds, test results identical to the clean tree, demo fails.
WT=$1; X=$2; T=/tmp/confirm_$(basename $WT)_$X; OUT=$T.txt
cd $WT || exit 2
git checkout -q -- lib app test 2>/dev/null
build() { cmake --build $WT/_build > ${T}_build.log 2>&1; }
tests() { ctest --test-dir $WT/_build -j8 --timeout 900 2>&1 | grep -E "^\s+[0-9]+ - .*\((Failed|Timeout|SEGFAULT|Subprocess aborted|Exception)" | sed 's/^ *[0-9]* - //' | sort; }
demo() { if [ -f mut/run_demo$X.sh ]; then (cd mut && timeout 1200 bash ./run_demo$X.sh > ${T}_demo.log 2>&1); echo $?; else echo "nodemo"; fi; }
{
echo "worktree $WT mutant $X"
[ -d _build ] || cmake -G Ninja -S $WT -B $WT/_build > /dev/null 2>&1
build || { echo "CLEAN BUILD FAILED"; exit 1; }
tests > ${T}_base_failed.txt
echo "clean tree: $(wc -l < ${T}_base_failed.txt) failing tests; demo exit: $(demo)"
git apply --whitespace=nowarn mut/$X.diff || { echo "PATCH DOES NOT APPLY"; exit 1; }
if build; then echo "mutant builds: yes"; else echo "mutant builds: NO"; tail -5 ${T}_build.log; fi
tests > ${T}_mut_failed.txt
if diff -q ${T}_base_failed.txt ${T}_mut_failed.txt > /dev/null; then echo "test results identical: yes"; else echo "test results identical: NO"; diff ${T}_base_failed.txt ${T}_mut_failed.txt | head -5; fi
echo "mutant demo exit: $(demo)"; tail -3 ${T}_demo.log | cut -c1-300
git apply -R --whitespace=nowarn mut/$X.diff; git checkout -q -- lib app test 2>/dev/null
build
} > $OUT 2>&1
cat $OUT
