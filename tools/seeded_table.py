#!/usr/bin/env python3
"""Regenerate the seeded-changes table in DESIGN.md (section 7) from seeded/*/meta.json."""
import glob, json, os, re
rows = []
for f in sorted(glob.glob("/verif/seeded/*/meta.json")):
    m = json.load(open(f))
    c = m.get("confirmed_by_me", {})
    ok = all([c.get("builds"), c.get("test_results_identical_to_clean_tree"), c.get("demo_passes_on_clean_tree"), c.get("demo_fails_with_change")])
    rows.append("| `%s` | %s | %s | %s | %s |" % (m["id"], m["breaks_property"], ", ".join(os.path.basename(x) for x in m["files_changed"]),
                                              m["needs_to_manifest"].replace("|", "/"), m["detection"].replace("|", "/") + ("" if ok else " **[confirmation incomplete]**")))
table = ("| seeded change | property | file(s) | what it needs in order to manifest | which check reports it |\n|---|---|---|---|---|\n" + "\n".join(rows) + "\n")
p = "/verif/DESIGN.md"
s = open(p).read()
if "SEEDED_TABLE_PLACEHOLDER" in s:
    s = s.replace("SEEDED_TABLE_PLACEHOLDER", "<!-- seeded-table-begin -->\n" + table + "<!-- seeded-table-end -->")
else:
    s = re.sub(r"<!-- seeded-table-begin -->.*?<!-- seeded-table-end -->", lambda _: "<!-- seeded-table-begin -->\n" + table + "<!-- seeded-table-end -->", s, flags=re.S)
open(p, "w").write(s)
print(len(rows), "rows")
