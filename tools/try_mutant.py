#!/usr/bin/env python3
"""Apply a seeded change to /repo, run the given checks, undo it. Usage:
   tools/try_mutant.py <patch.diff> C01 [C02 ...] [--tier quick] [--seed N]
Prints one line per check: <Cxx> rc=<rc> <first violation kinds>."""
import subprocess
import sys
import re

def sh(cmd, **kw):
    return subprocess.run(cmd, shell=True, stdout=subprocess.PIPE, stderr=subprocess.STDOUT, text=True, **kw)

def main():
    args = sys.argv[1:]
    tier, seed = "quick", "1"
    if "--tier" in args:
        i = args.index("--tier"); tier = args[i + 1]; del args[i:i + 2]
    if "--seed" in args:
        i = args.index("--seed"); seed = args[i + 1]; del args[i:i + 2]
    patch, props = args[0], args[1:]
    st = sh("git -C /repo status --porcelain --untracked-files=no").stdout.strip()
    if st:
        print("refusing: /repo has local modifications:\n" + st); return 2
    r = sh("git -C /repo apply --whitespace=nowarn " + patch)
    if r.returncode != 0:
        print("patch does not apply: " + r.stdout); return 2
    try:
        for p in props:
            r = sh("cd /verif && ./check %s --tier %s --seed %s" % (p, tier, seed))
            kinds = re.findall(r"^\s+\[([^\]]+)\]", r.stdout, re.M)
            summ = [l for l in r.stdout.splitlines() if re.match(r"^C\d+ (quick|thorough)", l)]
            print("%s rc=%d %s | %s" % (p, r.returncode, sorted(set(kinds))[:6], summ[-1] if summ else r.stdout[-300:].replace("\n", " ")))
            sys.stdout.flush()
    finally:
        sh("git -C /repo apply -R --whitespace=nowarn " + patch)
        sh("git -C /repo checkout -- .")
        left = sh("git -C /repo status --porcelain --untracked-files=no").stdout.strip()
        if left:
            print("WARNING: /repo not clean after undo:\n" + left)
    return 0

if __name__ == "__main__":
    sys.exit(main())
