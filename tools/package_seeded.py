#!/usr/bin/env python3
"""Package a confirmed seeded change:  tools/package_seeded.py <id> <worktree> <A|B|C> <property> "<needs>" "<detection>" """
import json, os, shutil, subprocess, sys, glob, re
sid, wt, x, prop, needs, detect = sys.argv[1:7]
dst = os.path.join("/verif/seeded", sid)
os.makedirs(dst, exist_ok=True)
shutil.copy(os.path.join(wt, "mut", x + ".diff"), os.path.join(dst, "patch.diff"))
for f in glob.glob(os.path.join(wt, "mut", "*")):
    b = os.path.basename(f)
    if os.path.isdir(f) or b.endswith(".diff") or b.endswith(".out") or b.endswith(".log") or os.path.getsize(f) > 400000:
        continue
    other = [y for y in "ABC" if y != x]
    if any(re.search(r"demo%s|run_demo%s|_%s[_.]" % (y, y, y), b) for y in other):
        continue
    if os.access(f, os.X_OK) and not b.endswith((".sh", ".py")):
        continue        # compiled binaries
    shutil.copy(f, os.path.join(dst, b))
conf = "/tmp/confirm_%s_%s.txt" % (os.path.basename(wt), x)
ctext = open(conf).read() if os.path.exists(conf) else ""
files = [l[6:] for l in open(os.path.join(dst, "patch.diff")) if l.startswith("+++ b/")]
meta = dict(id=sid, breaks_property=prop, files_changed=[f.strip() for f in files], needs_to_manifest=needs,
            produced_by="fresh sub-agent that saw only the property text and a scratch worktree of the repository",
            confirmed_by_me=dict(builds="mutant builds: yes" in ctext, test_results_identical_to_clean_tree="test results identical: yes" in ctext,
                                 demo_passes_on_clean_tree="demo exit: 0" in ctext.split("mutant builds")[0] if ctext else None,
                                 demo_fails_with_change=bool(re.search(r"mutant demo exit: [1-9]", ctext)), log=ctext[-1500:]),
            what_i_ran=["tools/confirm_mutant.sh %s %s   (agent's scratch worktree: clean build + ctest + demo, then with the change)" % (wt, x),
                        "tools/try_mutant.py seeded/%s/patch.diff %s   (git -C /repo apply; ./check ...; undo)" % (sid, prop)],
            detection=detect)
json.dump(meta, open(os.path.join(dst, "meta.json"), "w"), indent=1)
print("packaged", sid, sorted(os.listdir(dst)))
